#!/bin/sh
# Build the framework environment offline: overlay venv on /venv (+ /repo on the path), z3 + crosshair from the wheelhouse.
set -e
cd "$(dirname "$0")"
V=/verif/.venv
exec 9>/verif/.setup.lock
flock 9
if [ ! -x "$V/bin/python" ] || ! "$V/bin/python" -c "import z3, crosshair, jsonschema, numpy" >/dev/null 2>&1; then
  rm -rf "$V"
  /venv/bin/python -m venv "$V"
  printf '/venv/lib/python3.12/site-packages\n/repo\n' > "$V/lib/python3.12/site-packages/base.pth"
  PIP_NO_INDEX=1 "$V/bin/pip" install -q --no-index --find-links /opt/veriftools/wheels z3-solver crosshair-tool jsonschema
fi
"$V/bin/python" -c "import z3, numpoly, numpy, crosshair; assert numpoly.__file__.startswith('/repo/'), numpoly.__file__"
