"""Structure descriptors (the *enumerated* part of every E1 harness) and operand builders.

A PolySpec is JSON-able:
  {"names": ["q0","q1"], "exps": [[0,0],[1,0]], "shape": [2],
   "slots": [["a0","a1"], [0,"a2"]],        # one flat list per term; str = atom, number = literal
   "mode": "raw" | "clean"}
``raw``   builds the ndpoly directly (ndpoly(...) + values[key] = column): representation kept
          exactly as described, including all-zero-able columns (what align_* returns).
``clean`` goes through polynomial_from_attributes (forks on vanishing columns).
"""
from __future__ import annotations

import itertools
import random
from fractions import Fraction
from typing import Any, Dict, List, Optional, Sequence, Tuple

import numpy

from .engine import Sym, oarray
from . import model as M


def lit(x) -> str:
    """An exact rational literal in a slot, in a form that survives JSON (replay files): "=numerator/denominator"."""
    f = Fraction(x)
    return "=%d/%d" % (f.numerator, f.denominator)


def _is_atom(s) -> bool:
    return isinstance(s, str) and not s.startswith("=")


def spec_atoms(spec: Dict) -> List[str]:
    out: List[str] = []
    if spec.get("kind", "poly") == "poly":
        for col in spec["slots"]:
            for s in col:
                if _is_atom(s) and s not in out:
                    out.append(s)
    elif spec["kind"] in ("array", "list", "scalar"):
        for s in spec["slots"]:
            if _is_atom(s) and s not in out:
                out.append(s)
    return out


def _slot_value(s, values: Optional[Dict[str, Fraction]], unsigned: bool = False):
    if isinstance(s, str) and s.startswith("="):
        s = Fraction(s[1:])
    if isinstance(s, str):
        if values is None:
            return Sym.atom(s)
        return abs(values[s]) if unsigned else values[s]
    if values is None:
        return Sym.const(s)
    return s


# Native runs normally use int64 / float64 (the dtypes the compiled kernels serve).  With NARROW set (by the harness, around one
# native run) all-integer operands are built as int32 instead: a coefficient type the kernels do not serve, so that the
# pure-numpy fall-back branches of the real code are executed natively as well (the object carrier takes those branches in
# the symbolic run, so a symbolic finding there replays only on such a dtype).
NARROW = False


def _native_dtype(vals: Sequence) -> Any:
    if all(Fraction(v).denominator == 1 for v in vals):
        if NARROW and all(abs(Fraction(v)) < 2 ** 31 for v in vals):
            return numpy.int32
        return numpy.int64
    return numpy.float64


class Unrepresentable(BaseException):
    """A valuation that the requested native dtype cannot hold exactly (a fraction for an integer dtype, a value outside its range):
    the native run is skipped -- building the operand would silently change the input."""


def _native(v, dt):
    f = Fraction(v)
    kind = numpy.dtype(dt).kind
    if kind in "iu":
        info = numpy.iinfo(dt)
        if f.denominator != 1 or not (info.min <= f <= info.max):
            raise Unrepresentable("%s as %s" % (f, numpy.dtype(dt).name))
        return int(f)
    if kind == "b":
        return bool(f)
    return float(f)


def dtype_extremes(dt) -> List[int]:
    """Exactly representable values at the edges of a dtype (and just beyond the exact range of the next narrower carrier)."""
    dt = numpy.dtype(dt)
    if dt.kind == "b":
        return [1, 0, 1]
    if dt.kind in "iu":
        info = numpy.iinfo(dt)
        out = [info.max, info.max - 1, 1]
        if info.min < 0:
            out += [info.min, info.min + 1, -1]
        for v in (2 ** 53 + 1, 2 ** 32 + 5, 2 ** 31 + 3, 2 ** 24 + 1, 2 ** 16 + 7, 200, 130):
            if v <= info.max:
                out.append(v)
                break
        return out
    mant = {2: 11, 4: 24, 8: 53}.get(dt.itemsize if dt.kind == "f" else dt.itemsize // 2, 24)
    return [2 ** mant - 1, -(2 ** mant - 1), 2 ** (mant - 1) + 1, 1, -3]


def extreme_poly_spec(names, exps, shape, dt, rng: random.Random, zero_prob: float = 0.15, mode: str = "raw") -> Dict:
    """Literal-only polynomial whose native runs use dtype ``dt`` and coefficients at that dtype's edges (symbolically: the same
    exact numbers).  For the native dtype layer of properties whose quantifier says "arbitrary dtypes"."""
    ext = dtype_extremes(dt)
    n = size_of(shape)
    slots = [[(0 if rng.random() < zero_prob else rng.choice(ext)) for _ in range(n)] for _ in exps]
    if all(v == 0 for col in slots for v in col):
        slots[0][0] = ext[0]
    spec = {"kind": "poly", "names": list(names), "exps": [list(e) for e in exps], "shape": list(shape), "slots": slots, "mode": mode, "dtype": numpy.dtype(dt).str if numpy.dtype(dt).byteorder == ">" else numpy.dtype(dt).name}
    return spec


def apply_view(a, view):
    """Strided (non-copying) ndarray views of an operand: the same call works on an ndpoly (ndarray methods on the raw
    storage) and on a model array."""
    if not view:
        return a
    if view.endswith("+own"):
        # the same layout in storage of its own (what copy.copy / copy.deepcopy / .copy(order="K") of a view give): owning, not C-ordered
        return apply_view(a, view[:-4]).copy(order="K")
    if view == "T":
        return a.T
    if view == "rev":
        return a[::-1] if not hasattr(a, "names") else numpy.ndarray.__getitem__(a, slice(None, None, -1))
    if view == "swap":
        return a.swapaxes(0, -1)
    if view == "cyc":  # axes rotated by one: a permutation that is not its own inverse (3-d and up)
        nd = len(a.shape)
        return a.transpose(tuple(range(1, nd)) + (0,)) if nd >= 2 else a
    raise ValueError(view)


def view_shape(spec) -> Tuple[int, ...]:
    shape = tuple(spec.get("shape", ()))
    v = spec.get("view")
    v = v[:-4] if v and v.endswith("+own") else v
    if v == "T":
        return tuple(reversed(shape))
    if v == "swap" and len(shape) >= 2:
        return (shape[-1],) + shape[1:-1] + (shape[0],)
    if v == "cyc" and len(shape) >= 2:
        return tuple(shape[1:]) + (shape[0],)
    return shape


def _layout(a: numpy.ndarray, layout):
    """The same numbers in another memory layout (plain array operands): Fortran order, a strided view of a larger buffer, a
    read-only array.  Values and shape are unchanged, so models and expectations are too."""
    if not layout or a.ndim == 0 or a.size == 0:
        return a
    if layout == "F":
        return numpy.asfortranarray(a)
    if layout == "strided":
        big = numpy.empty(tuple(2 * n for n in a.shape), dtype=a.dtype)
        if a.dtype == object:
            big[...] = 0
        else:
            big[...] = numpy.array(99).astype(a.dtype) if a.dtype.kind != "b" else True
        view = big[tuple(slice(None, None, 2) for _ in a.shape)]
        view[...] = a
        return view
    if layout == "readonly":
        b = a.copy()
        b.flags.writeable = False
        return b
    raise ValueError(layout)


PRE_CHAINS = ["T2", "reshape", "copy", "getitem", "polynomial", "plus0", "astype", "stack0", "where", "pickle", "aligned"]


def apply_pre(p, pre):
    """The same polynomial array obtained through another library function first (value-, shape- and name-preserving): the
    operation under test then meets an operand that is the *result* of transpose / reshape / indexing / stacking / where / a cast
    rather than a freshly constructed one."""
    import numpoly

    if not getattr(p, "size", 1):
        return p  # (zero-size arrays: most functions are outside their domain there, see DESIGN)
    for step in pre or ():
        q = p
        if step == "T2":
            q = numpoly.transpose(numpoly.transpose(p))
        elif step == "reshape":
            q = numpoly.reshape(numpoly.reshape(p, (-1,)), p.shape) if p.shape else p
        elif step == "copy":
            q = p.copy()
        elif step == "getitem":
            q = p[...] if p.shape else p
        elif step == "polynomial":
            q = numpoly.polynomial(p)
        elif step == "plus0":
            q = p + 0
        elif step == "astype":
            q = p.astype(p.dtype)
        elif step == "stack0":
            q = numpoly.stack([p, p])[1] if p.shape else p
        elif step == "where":
            q = numpoly.where(numpy.ones(p.shape, dtype=bool), p, p)
        elif step == "pickle":
            if p.dtype != object:  # (native runs only: the exact carrier's numbers are not picklable)
                import pickle

                q = pickle.loads(pickle.dumps(p))
        elif step == "aligned":
            # what align_polynomials hands back: the same polynomial carrying an all-zero term (and keeping its names)
            extra = numpoly.ndpoly(exponents=[[7] + [0] * (len(p.names) - 1)], shape=(), names=p.names, dtype=p.dtype)
            extra.values[extra.keys[0]] = 0 if p.dtype != object else Sym.const(0)
            q = numpoly.align_exponents(p, extra)[0]
        # a step that changes the declared names or the shape (p + 0 adds the default name q0) is not a pre-chain of *this* operand
        if tuple(q.names) == tuple(p.names) and tuple(q.shape) == tuple(p.shape):
            p = q
    return p


def build_operand(spec: Dict, values: Optional[Dict[str, Fraction]] = None):
    """Build the real operand (numpoly.ndpoly / ndarray / list / python number).

    values=None -> symbolic (object dtype, Sym atoms); else native dtype with those values."""
    import numpoly

    kind = spec.get("kind", "poly")
    shape = tuple(spec.get("shape", ()))
    if kind == "poly":
        uns = bool(spec.get("unsigned")) and values is not None
        cols = [[(abs(_slot_value(s, values, uns)) if uns else _slot_value(s, values)) for s in col] for col in spec["slots"]]
        if values is None:
            dt: Any = object
            arrs = [oarray(col, shape) for col in cols]
        else:
            dt = numpy.dtype(spec.get("dtype") or _native_dtype([v for col in cols for v in col]))  # (keeps a byte order given in the spec)
            arrs = [numpy.array([_native(v, dt) for v in col], dtype=dt).reshape(shape) for col in cols]
        names = tuple(spec["names"])
        if spec.get("mode", "raw") == "clean":
            return apply_view(apply_pre(numpoly.polynomial_from_attributes(spec["exps"], arrs, names, dtype=dt if values is None else None), spec.get("pre")), spec.get("view"))
        p = numpoly.ndpoly(exponents=spec["exps"], shape=shape, names=names, dtype=dt)
        for key, arr in zip(p.keys, arrs):
            p.values[key] = arr
        return apply_view(apply_pre(p, spec.get("pre")), spec.get("view"))
    vals = [_slot_value(s, values) for s in spec["slots"]]
    if kind == "scalar":
        v = vals[0]
        if spec.get("carrier") and values is not None:  # an exact literal handed over as a python float / 0-d float64 array
            return float(Fraction(v)) if spec["carrier"] == "pyfloat" else numpy.array(float(Fraction(v)))
        if values is None:
            return numpy.asarray(v, dtype=object) if isinstance(v, Sym) else v
        dt = _native_dtype(vals)
        return dt(_native(v, dt)) if spec.get("np") else _native(v, dt)
    if kind == "array":
        if values is None:
            return _layout(oarray(vals, shape), spec.get("layout"))
        dt = numpy.dtype(spec["dtype"]) if spec.get("dtype") else _native_dtype(vals)
        return _layout(numpy.array([_native(v, dt) for v in vals], dtype=dt).reshape(shape), spec.get("layout"))
    if kind == "list":
        if values is None:
            return oarray(vals, shape).tolist()
        dt = _native_dtype(vals)
        return numpy.array([_native(v, dt) for v in vals], dtype=dt).reshape(shape).tolist()
    raise ValueError(kind)


def model_operand(spec: Dict, values: Optional[Dict[str, Fraction]] = None) -> numpy.ndarray:
    """The same operand in the exact model (independent of numpoly)."""
    kind = spec.get("kind", "poly")
    shape = tuple(spec.get("shape", ()))
    if kind == "poly":
        uns = bool(spec.get("unsigned")) and values is not None
        cols = [[(abs(_slot_value(s, values, uns)) if uns else _slot_value(s, values)) for s in col] for col in spec["slots"]]
        return apply_view(M.from_attributes(spec["exps"], [oarray(col, shape) for col in cols], tuple(spec["names"]), shape), spec.get("view"))
    vals = [_slot_value(s, values) for s in spec["slots"]]
    return M.mp_array([M.MP.const(v) for v in vals], shape)


# --------------------------------------------------------------------------------------
# family F(k)
# --------------------------------------------------------------------------------------

SHAPES_ALL = [(), (1,), (2,), (3,), (1, 2), (2, 1), (2, 2), (2, 1, 2), (1, 2, 2), (2, 2, 2)]
NAME_SETS = [("q0",), ("q1",), ("q0", "q1"), ("q0", "q2"), ("q2", "q10"), ("q10",), ("q0", "q1", "q2"), ("q1", "q0"), ("q2", "q0"), ("q10", "q2", "q0")]


def many_names_spec(prefix: str, nnames: int, used: Sequence[int], shape, rng: random.Random, atoms: int = 2, maxexp: int = 1) -> Dict:
    """A polynomial that *declares* q0..q<nnames-1> but uses only the indeterminates listed in ``used`` (few terms, wide exponent
    rows): whatever packs, hashes or ranks whole exponent rows meets rows far wider than its small cases."""
    names = tuple("q%d" % i for i in range(nnames))
    rows = [[0] * nnames]
    for u in used:
        r = [0] * nnames
        r[u] = rng.choice(range(1, maxexp + 1))
        rows.append(r)
    if len(used) >= 2:
        r = [0] * nnames
        r[used[0]] = 1
        r[used[-1]] = maxexp
        rows.append(r)
    rows = [list(r) for r in dict.fromkeys(tuple(r) for r in rows)]
    return make_poly_spec(prefix, names, rows, shape, rng, atoms, zero_prob=0.0, literal_prob=0.3, mode="raw")


def size_of(shape) -> int:
    n = 1
    for s in shape:
        n *= s
    return n


def exps_for(nnames: int, maxexp: int, rng: random.Random, nterms: int, include_const: Optional[bool] = None):
    allrows = list(itertools.product(range(maxexp + 1), repeat=nnames))
    rows = rng.sample(allrows, min(nterms, len(allrows)))
    if include_const is True and tuple([0] * nnames) not in rows:
        rows[0] = tuple([0] * nnames)
    rows = sorted(set(rows))
    return [list(r) for r in rows]


def make_poly_spec(
    prefix: str,
    names: Sequence[str],
    exps: List[List[int]],
    shape: Tuple[int, ...],
    rng: random.Random,
    atom_budget: int,
    zero_prob: float = 0.15,
    literal_prob: float = 0.15,
    mode: str = "raw",
    share_from: Optional[List[str]] = None,
) -> Dict:
    """Fill coefficient slots: atoms up to the budget, then small non-zero literals; some literal zeros;
    optionally re-using atoms of another operand (exact cancellation reachable syntactically)."""
    n = size_of(shape)
    slots: List[List[Any]] = []
    used = 0
    for _t in exps:
        col: List[Any] = []
        for _i in range(n):
            r = rng.random()
            if r < zero_prob:
                col.append(0)
            elif r < zero_prob + literal_prob or used >= atom_budget:
                col.append(rng.choice([1, -1, 2, 3, -2, 5]))
            elif share_from and rng.random() < 0.3:
                col.append(rng.choice(share_from))
            else:
                col.append(f"{prefix}{used}")
                used += 1
        slots.append(col)
    exps = [list(e) for e in exps]
    if mode == "raw" and len(exps) > 1 and rng.random() < 0.3:
        # storage order of the terms is not part of a polynomial's value: raw operands keep whatever order they are given
        # (variable(), monomial(), dict construction all produce non-lexicographic orders)
        order = list(range(len(exps)))
        rng.shuffle(order)
        exps = [exps[i] for i in order]
        slots = [slots[i] for i in order]
    sp = {"kind": "poly", "names": list(names), "exps": exps, "shape": list(shape), "slots": slots, "mode": mode}
    if rng.random() < 0.2:
        sp["pre"] = [rng.choice(PRE_CHAINS)] if rng.random() < 0.7 else rng.sample(PRE_CHAINS, 2)
    return sp


def make_numeric_spec(prefix: str, kind: str, shape, rng: random.Random, atom_budget: int) -> Dict:
    n = size_of(shape)
    slots: List[Any] = []
    used = 0
    for _ in range(n):
        if used < atom_budget and rng.random() < 0.7:
            slots.append(f"{prefix}{used}")
            used += 1
        else:
            slots.append(rng.choice([0, 1, -1, 2, 3]))
    sp = {"kind": kind, "shape": list(shape), "slots": slots}
    if kind == "array" and len(shape) >= 1 and n > 1 and rng.random() < 0.4:
        # memory layout is not part of an array's value
        sp["layout"] = rng.choice(["F", "strided", "readonly"] if len(shape) >= 2 else ["strided", "readonly"])
    return sp


def broadcastable(s1, s2) -> bool:
    try:
        numpy.broadcast_shapes(tuple(s1), tuple(s2))
        return True
    except ValueError:
        return False


def spec_signature(spec: Dict) -> str:
    kind = spec.get("kind", "poly")
    if kind == "poly":
        zero = sum(1 for c in spec["slots"] for s in c if s == 0)
        return "poly%s%s/t%d/z%d/%s" % (tuple(spec["shape"]), ",".join(spec["names"]), len(spec["exps"]), zero, spec.get("mode", "raw"))
    return "%s%s" % (kind, tuple(spec.get("shape", ())))


def poly_from_model(mparr: numpy.ndarray, names: Sequence[str], concrete: bool):
    """Build a real ndpoly (raw mode) holding exactly the model array ``mparr`` (used for operands whose
    coefficients are *expressions* in the atoms, e.g. an exact multiple divisor*cofactor)."""
    import numpoly

    shape = tuple(mparr.shape)
    items = M.flat_items(mparr)
    monos = sorted({m for it in items for m in it.terms})
    if not monos:
        monos = [()]
    rows = [[dict(m).get(n, 0) for n in names] for m in monos]
    cols = [[it.coeff(m) for it in items] for m in monos]
    if not concrete:
        dt: Any = object
        arrs = [oarray(c, shape) for c in cols]
    else:
        vals = [x.const_value() for c in cols for x in c]
        dt = _native_dtype(vals)
        arrs = [numpy.array([_native(x.const_value(), dt) for x in c], dtype=dt).reshape(shape) for c in cols]
    p = numpoly.ndpoly(exponents=rows, shape=shape, names=tuple(names), dtype=dt)
    for key, arr in zip(p.keys, arrs):
        p.values[key] = arr
    return p
