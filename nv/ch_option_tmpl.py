"""CrossHair harness for numpoly/option.py (E3).  This file is a TEMPLATE: nv.checks.c14 copies it
with the constants below substituted, then runs `crosshair check --report_all` on the copy.

The real module source is executed afresh for every call (no state leaks between CrossHair paths);
it has no numpy dependency, so nothing is realised at a C boundary."""
from typing import Any, Dict, List, Tuple
import ast

OPTION_PY = "/repo/numpoly/option.py"
FIRST_OP = -1  # >= 0: the first operation is fixed (used to spread long histories over processes)

_SRC = open(OPTION_PY).read()
_CODE = compile(_SRC, OPTION_PY, "exec")


def _shipped_defaults() -> Dict[str, Any]:
    """The defaults as *shipped*: literal dict in the source text (independent of run-time state)."""
    tree = ast.parse(_SRC)
    for node in tree.body:
        if isinstance(node, ast.Assign) and any(isinstance(t, ast.Name) and t.id == "GLOBAL_OPTIONS_DEFAULTS" for t in node.targets):
            return ast.literal_eval(node.value)
    raise RuntimeError("GLOBAL_OPTIONS_DEFAULTS literal not found")


DEFAULTS = _shipped_defaults()
K1 = "retain_names"
K2 = "sort_graded"
K3 = "display_exponent"


class Boom(Exception):
    pass


class Opt:
    """Fresh instance of the real module."""

    def __init__(self):
        ns: Dict[str, Any] = {"__name__": "np_option"}
        exec(_CODE, ns)
        self.get_options = ns["get_options"]
        self.set_options = ns["set_options"]
        self.global_options = ns["global_options"]


def same(a: Dict[str, Any], b: Dict[str, Any]) -> bool:
    if len(a) != len(b):
        return False
    for k in b:
        if k not in a:
            return False
        if type(a[k]) is not type(b[k]) and not (isinstance(a[k], (bool, int, str)) and a[k] == b[k]):
            return False
        if a[k] != b[k]:
            return False
    return True


def run(opt: Opt, ops: List[int], vals: List[bool], i: int, cur: Dict[str, Any]) -> Tuple[bool, int, Dict[str, Any]]:
    """Interpret ops[i:] against the real functions and the stack model ``cur`` (blocks nest by recursion)."""
    while i < len(ops):
        code = ops[i]
        v = vals[i]
        i += 1
        if code == 0:  # set_options, one valid key
            opt.set_options(**{K1: v})
            cur = dict(cur)
            cur[K1] = v
        elif code == 1:  # set_options: valid key mixed with an invalid one -> KeyError, nothing changed
            try:
                opt.set_options(**{K2: v, "no_such_option": (None if v else 1)})  # whatever the junk value is (None = what dict.get answers for a missing key)
                return False, i, cur
            except KeyError:
                pass
        elif code == 2:  # enter block, run the rest of the history inside, exit normally
            saved = dict(cur)
            with opt.global_options(**{K2: v}) as inside:
                inner = dict(cur)
                inner[K2] = v
                if not same(opt.get_options(), inner) or not same(inside, inner):
                    return False, i, cur
                ok, i, _ = run(opt, ops, vals, i, inner)
                if not ok:
                    return False, i, cur
            cur = saved
        elif code == 3:  # enter block, do one more operation inside, then leave by exception
            saved = dict(cur)
            try:
                with opt.global_options(**{K1: v}):
                    inner = dict(cur)
                    inner[K1] = v
                    if not same(opt.get_options(), inner):
                        return False, i, cur
                    if i < len(ops):
                        ok, i, _ = run(opt, ops[: i + 1], vals, i, inner)
                        if not ok:
                            return False, i, cur
                    raise Boom()
            except Boom:
                pass
            cur = saved
        elif code == 4:  # mutate the dictionaries handed out
            d = opt.get_options()
            d[K1] = not v
            d["junk"] = 1
            del d[K2]
            dd = opt.get_options(defaults=True)
            dd[K2] = v
            dd["junk"] = 2
        elif code == 5:  # global_options with an invalid key among valid ones -> KeyError, nothing changed
            try:
                with opt.global_options(**{K1: v, "bogus": (2 if v else None)}):
                    return False, i, cur
            except KeyError:
                pass
        elif code == 6:  # several valid keys at once
            opt.set_options(**{K1: v, K2: not v})
            cur = dict(cur)
            cur[K1] = v
            cur[K2] = not v
        else:  # code == 7: enter block, change something inside, leave by a *KeyError* (a builtin lookup error or an
            # uncaught set_options with an unknown key): the exception type must not matter for the restore
            saved = dict(cur)
            try:
                with opt.global_options(**{K2: v}):
                    opt.set_options(**{K1: not v})
                    if v:
                        raise KeyError("some key")
                    opt.set_options(**{"no_such_option": 1})
                    return False, i, cur
            except KeyError:
                pass
            cur = saved
        if not same(opt.get_options(), cur):
            return False, i, cur
        if not same(opt.get_options(defaults=True), DEFAULTS):
            return False, i, cur
    return True, i, cur


def _history(ops: List[int], vals: List[bool], s0: bool, s1: bool) -> bool:
    opt = Opt()
    if not same(opt.get_options(), DEFAULTS):
        return False
    opt.set_options(**{K1: s0, K2: s1})  # arbitrary prior state
    start = dict(DEFAULTS)
    start[K1] = s0
    start[K2] = s1
    ok, _, cur = run(opt, ops, vals, 0, start)
    return ok and same(opt.get_options(), cur)


def check_history3(o0: int, o1: int, o2: int, v0: bool, v1: bool, v2: bool, s0: bool, s1: bool) -> bool:
    """
    pre: 0 <= o0 <= 7 and 0 <= o1 <= 7 and 0 <= o2 <= 7
    pre: FIRST_OP < 0 or o0 == FIRST_OP
    post: _
    """
    return _history([o0, o1, o2], [v0, v1, v2], s0, s1)


def twin_history3(o0: int, o1: int, o2: int, v0: bool, v1: bool, v2: bool, s0: bool, s1: bool) -> bool:
    """
    pre: 0 <= o0 <= 7 and 0 <= o1 <= 7 and 0 <= o2 <= 7
    pre: FIRST_OP < 0 or o0 == FIRST_OP
    post: not _
    """
    return _history([o0, o1, o2], [v0, v1, v2], s0, s1)


def check_history4(o0: int, o1: int, o2: int, o3: int, v0: bool, v1: bool, v2: bool, v3: bool, s0: bool, s1: bool) -> bool:
    """
    pre: 0 <= o0 <= 7 and 0 <= o1 <= 7 and 0 <= o2 <= 7 and 0 <= o3 <= 7
    pre: FIRST_OP < 0 or o0 == FIRST_OP
    post: _
    """
    return _history([o0, o1, o2, o3], [v0, v1, v2, v3], s0, s1)


def check_history5(o0: int, o1: int, o2: int, o3: int, o4: int, v0: bool, v1: bool, v2: bool, v3: bool, v4: bool, s0: bool, s1: bool) -> bool:
    """
    pre: 0 <= o0 <= 7 and 0 <= o1 <= 7 and 0 <= o2 <= 7 and 0 <= o3 <= 7 and 0 <= o4 <= 7
    pre: FIRST_OP < 0 or o0 == FIRST_OP
    post: _
    """
    return _history([o0, o1, o2, o3, o4], [v0, v1, v2, v3, v4], s0, s1)


# ---------------------------------------------------------------------------- one block, all value kinds
def check_block_values(flag: bool, num: int, text: str, raise_inside: bool, set_inside: bool) -> bool:
    """
    pre: len(text) <= 3
    post: _
    """
    opt = Opt()
    before = opt.get_options()
    try:
        with opt.global_options(**{K1: flag, "display_multiply": text, "default_varname": text, K2: num}):
            now = opt.get_options()
            if now[K1] != flag or now["display_multiply"] != text or now[K2] != num:
                return False
            for k in before:
                if k not in (K1, "display_multiply", "default_varname", K2) and now[k] != before[k]:
                    return False
            if set_inside:
                opt.set_options(**{K3: text, "sort_reverse": flag})
            if raise_inside:
                raise Boom()
    except Boom:
        pass
    return same(opt.get_options(), before) and same(opt.get_options(defaults=True), DEFAULTS)


def twin_block_values(flag: bool, num: int, text: str, raise_inside: bool, set_inside: bool) -> bool:
    """
    pre: len(text) <= 3
    post: not _
    """
    return check_block_values(flag, num, text, raise_inside, set_inside)


# ---------------------------------------------------------------------------- values that compare equal but are different objects
def _strict_same(a: Dict[str, Any], b: Dict[str, Any]) -> bool:
    if len(a) != len(b):
        return False
    for k in b:
        if k not in a or type(a[k]) is not type(b[k]) or a[k] != b[k]:
            return False
        if isinstance(b[k], float) and str(a[k]) != str(b[k]):  # -0.0 vs 0.0
            return False
    return True


def _equal_distinct(kind: int, via_set: bool, raise_inside: bool) -> bool:
    """The previous value and the value inside the block compare equal as numbers but are different objects (1 / True, 0 / False,
    1.0 / 1, -0.0 / 0.0): leaving the block must put the *previous* object back, by normal exit and by exception."""
    pairs = [(1, True), (True, 1), (0, False), (False, 0.0), (1.0, 1), (-0.0, 0.0), (0.0, -0.0), (True, 1.0)]
    before_v, inside_v = pairs[kind]
    opt = Opt()
    opt.set_options(**{K2: before_v})
    before = opt.get_options()
    try:
        with opt.global_options(**({} if via_set else {K2: inside_v})):
            if via_set:
                opt.set_options(**{K2: inside_v})
            if raise_inside:
                raise Boom()
    except Boom:
        pass
    return _strict_same(opt.get_options(), before)


def check_equal_distinct(kind: int, via_set: bool, raise_inside: bool) -> bool:
    """
    pre: 0 <= kind <= 7
    post: _
    """
    return _equal_distinct(kind, via_set, raise_inside)


def twin_equal_distinct(kind: int, via_set: bool, raise_inside: bool) -> bool:
    """
    pre: 0 <= kind <= 7
    post: not _
    """
    return _equal_distinct(kind, via_set, raise_inside)


# ---------------------------------------------------------------------------- what the block hands out is a copy
def _yielded(v: bool, s0: bool, s1: bool, empty: bool, new_key: bool, raise_inside: bool, set_inside: bool) -> bool:
    """The dict a block yields (``with global_options(...) as opts``) is the caller's: writing to it -- also in a block entered
    without any option -- changes nothing, and the block still restores the previous options."""
    opt = Opt()
    opt.set_options(**{K1: s0, K2: s1})
    before = opt.get_options()
    try:
        with (opt.global_options() if empty else opt.global_options(**{K2: v})) as opts:
            inner = dict(before)
            if not empty:
                inner[K2] = v
            opts[K1] = not s0
            if new_key:
                opts["junk"] = 1
            if not same(opt.get_options(), inner):
                return False
            if set_inside:
                opt.set_options(**{K3: "^"})
            if raise_inside:
                raise Boom()
    except Boom:
        pass
    return same(opt.get_options(), before) and same(opt.get_options(defaults=True), DEFAULTS)


def check_yielded(v: bool, s0: bool, s1: bool, empty: bool, new_key: bool, raise_inside: bool, set_inside: bool) -> bool:
    """
    post: _
    """
    return _yielded(v, s0, s1, empty, new_key, raise_inside, set_inside)


def twin_yielded(v: bool, s0: bool, s1: bool, empty: bool, new_key: bool, raise_inside: bool, set_inside: bool) -> bool:
    """
    post: not _
    """
    return _yielded(v, s0, s1, empty, new_key, raise_inside, set_inside)


# ---------------------------------------------------------------------------- one object, entered again while active
def _decorated(v: bool, fail: bool, s0: bool, s1: bool, depth: int) -> bool:
    """One global_options object used as a decorator on a function that calls itself: the same object is entered again while
    it is active; every level must restore what *it* found, for a normal return and for an exception."""
    opt = Opt()
    opt.set_options(**{K1: s0, K2: s1})
    saved = opt.get_options()
    deco = opt.global_options(**{K1: v})
    ok = [True]

    @deco
    def descend(d: int) -> None:
        inner = dict(saved)
        inner[K1] = v
        if d < depth:
            inner[K2] = not v  # set by the level above
        if not same(opt.get_options(), inner):
            ok[0] = False
        if d:
            opt.set_options(**{K2: not v})
            try:
                descend(d - 1)
            finally:
                back = dict(saved)
                back[K1] = v
                back[K2] = not v
                if not same(opt.get_options(), back):
                    ok[0] = False
        elif fail:
            raise Boom()

    try:
        descend(depth)
    except Boom:
        pass
    return ok[0] and same(opt.get_options(), saved)


def check_decorated(v: bool, fail: bool, s0: bool, s1: bool, depth: int) -> bool:
    """
    pre: 0 <= depth <= 2
    post: _
    """
    return _decorated(v, fail, s0, s1, depth)


def twin_decorated(v: bool, fail: bool, s0: bool, s1: bool, depth: int) -> bool:
    """
    pre: 0 <= depth <= 2
    post: not _
    """
    return _decorated(v, fail, s0, s1, depth)


# ---------------------------------------------------------------------------- unknown names
def _unknown(name: str, v: bool, in_block: bool, junk: Any = 1) -> bool:
    opt = Opt()
    opt.set_options(**{K1: v})
    before = opt.get_options()
    try:
        if in_block:
            with opt.global_options(**{K2: v, name: junk}):
                return False
        else:
            opt.set_options(**{K2: not v, name: junk})
            return False
    except KeyError:
        pass
    return same(opt.get_options(), before)


def check_unknown_name(name: str, v: bool, in_block: bool) -> bool:
    """
    pre: len(name) <= 4
    pre: name not in DEFAULTS
    post: _
    """
    return _unknown(name, v, in_block)


def twin_unknown_name(name: str, v: bool, in_block: bool) -> bool:
    """
    pre: len(name) <= 4
    pre: name not in DEFAULTS
    post: not _
    """
    return _unknown(name, v, in_block)


def check_unknown_value(kind: int, num: int, text: str, v: bool, in_block: bool, valid_unchanged: bool) -> bool:
    """
    pre: 0 <= kind <= 6
    pre: len(text) <= 2
    post: _
    """
    # the value given for the unknown name must not matter: None / False / 0 / "" (what look-ups with a default answer for a
    # missing key), an arbitrary int, an arbitrary short string, a bool; optionally with the valid key given its current value
    junk = [None, False, 0, "", num, text, v][kind]
    opt = Opt()
    opt.set_options(**{K1: v})
    before = opt.get_options()
    valid = before[K2] if valid_unchanged else (not v)
    try:
        if in_block:
            with opt.global_options(**{K2: valid, "bogus": junk}):
                return False
        else:
            opt.set_options(**{K2: valid, "bogus": junk})
            return False
    except KeyError:
        pass
    return same(opt.get_options(), before)


def twin_unknown_value(kind: int, num: int, text: str, v: bool, in_block: bool, valid_unchanged: bool) -> bool:
    """
    pre: 0 <= kind <= 6
    pre: len(text) <= 2
    post: not _
    """
    return check_unknown_value(kind, num, text, v, in_block, valid_unchanged)


def check_near_miss_names(which: int, v: bool, in_block: bool) -> bool:
    """
    pre: 0 <= which <= 6
    post: _
    """
    names = ["", "x", "retain_name", "Retain_names", "retain_names ", "sort_gradeD", "defaults"]
    return _unknown(names[which], v, in_block)
