"""Native special-value layer: nan, +-inf, -0.0, huge / tiny magnitudes, purely imaginary numbers.

The exact carrier (rationals) has no such values, so these cases run natively only (``ctx.symbolic`` bodies skip them).
Expected results are written down per operation as IEEE expressions over the *same* float values; comparisons are
nan-aware and shape/dtype-exact, and a term the operation should not produce must be exactly zero (not nan)."""
from __future__ import annotations

from typing import Dict, Tuple

import numpy

INF, NAN = float("inf"), float("nan")
FMAX = float(numpy.finfo(numpy.float64).max)

# coefficient vectors (length 2) mixing one special value with an ordinary one
PAIRS = [[INF, 2.0], [-INF, 0.5], [NAN, 1.0], [-0.0, 3.0], [1e308, 0.25], [FMAX, 0.0], [5e-324, -1.0], [1.5, NAN]]


def terms(p) -> Dict[Tuple[int, ...], numpy.ndarray]:
    return {tuple(int(v) for v in e): numpy.asarray(c) for e, c in zip(p.exponents.tolist(), p.coefficients)}


def same(a, b) -> bool:
    a, b = numpy.asarray(a), numpy.asarray(b)
    if a.shape != b.shape:
        return False
    with numpy.errstate(all="ignore"):
        return bool(numpy.array_equal(a, b, equal_nan=True))


def expect_terms(ctx, got, expected: Dict[Tuple[int, ...], numpy.ndarray], what: str) -> None:
    """``got`` (ndpoly) must hold exactly the expected coefficient arrays; any other stored term must be exactly zero."""
    have = terms(got)
    for mono, want in expected.items():
        g = have.get(mono)
        if g is None:
            if numpy.any(numpy.asarray(want) != 0):  # (nan != 0 is True: a missing nan term is a difference)
                ctx.fail("value", "%s: term %s is missing, expected coefficients %s" % (what, mono, numpy.asarray(want).tolist()))
            continue
        if not same(g, numpy.broadcast_to(want, g.shape) if numpy.ndim(want) == 0 else want):
            ctx.fail("value", "%s: term %s has coefficients %s, expected %s" % (what, mono, g.tolist(), numpy.asarray(want).tolist()))
    for mono, g in have.items():
        if mono not in expected and not same(g, numpy.zeros(g.shape, dtype=g.dtype)):
            ctx.fail("value", "%s: unexpected term %s with coefficients %s (expected nothing there)" % (what, mono, g.tolist()))


def bytes_of(p) -> bytes:
    return numpy.ascontiguousarray(numpy.asarray(p).view(numpy.ndarray) if not hasattr(p, "names") else p.view(numpy.ndarray)).tobytes()
