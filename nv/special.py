"""Native special-value layer: nan, +-inf, -0.0, huge / tiny magnitudes, purely imaginary numbers.

The exact carrier (rationals) has no such values, so these cases run natively only (``ctx.symbolic`` bodies skip them).
Expected results are written down per operation as IEEE expressions over the *same* float values; comparisons are
nan-aware and shape/dtype-exact, and a term the operation should not produce must be exactly zero (not nan)."""
from __future__ import annotations

from typing import Dict, Tuple

import numpy

INF, NAN = float("inf"), float("nan")
FMAX = float(numpy.finfo(numpy.float64).max)

# coefficient vectors (length 2) mixing one special value with an ordinary one
PAIRS = [[INF, 2.0], [-INF, 0.5], [NAN, 1.0], [-0.0, 3.0], [1e308, 0.25], [FMAX, 0.0], [5e-324, -1.0], [1.5, NAN]]


def terms(p) -> Dict[Tuple[int, ...], numpy.ndarray]:
    return {tuple(int(v) for v in e): numpy.asarray(c) for e, c in zip(p.exponents.tolist(), p.coefficients)}


def same(a, b) -> bool:
    a, b = numpy.asarray(a), numpy.asarray(b)
    if a.shape != b.shape:
        return False
    with numpy.errstate(all="ignore"):
        return bool(numpy.array_equal(a, b, equal_nan=True))


def expect_terms(ctx, got, expected: Dict[Tuple[int, ...], numpy.ndarray], what: str) -> None:
    """``got`` (ndpoly) must hold exactly the expected coefficient arrays; any other stored term must be exactly zero."""
    have = terms(got)
    for mono, want in expected.items():
        g = have.get(mono)
        if g is None:
            if numpy.any(numpy.asarray(want) != 0):  # (nan != 0 is True: a missing nan term is a difference)
                ctx.fail("value", "%s: term %s is missing, expected coefficients %s" % (what, mono, numpy.asarray(want).tolist()))
            continue
        if not same(g, numpy.broadcast_to(want, g.shape) if numpy.ndim(want) == 0 else want):
            ctx.fail("value", "%s: term %s has coefficients %s, expected %s" % (what, mono, g.tolist(), numpy.asarray(want).tolist()))
    for mono, g in have.items():
        if mono not in expected and not same(g, numpy.zeros(g.shape, dtype=g.dtype)):
            ctx.fail("value", "%s: unexpected term %s with coefficients %s (expected nothing there)" % (what, mono, g.tolist()))


def bytes_of(p) -> bytes:
    return numpy.ascontiguousarray(numpy.asarray(p).view(numpy.ndarray) if not hasattr(p, "names") else p.view(numpy.ndarray)).tobytes()


# --------------------------------------------------------------------------------------------------------------------------
# complex and other special coefficient content: term-wise oracles
# --------------------------------------------------------------------------------------------------------------------------
def zoo(shape=(2,), only=None):
    """(label, polynomial) pairs over (q0, q1): complex128 / complex64 / float64 coefficient arrays with ordinary complex values,
    tiny and purely imaginary parts, signed zeros, and (separately labelled) non-finite parts.  Fresh objects on every call."""
    import numpoly

    n = int(numpy.prod(shape)) if shape else 1
    tiny = 3e-15
    sets = {
        "complex ordinary": [[1.5 + 2j, -0.25j], [2 - 1j, 3.0], [0.5j, -1 + 1j]],
        "complex tiny imaginary": [[1.5 + 1e-20j, 2.0], [tiny * 1j, 2e-16j], [1 + 1e-15j, -2.0]],
        "complex purely imaginary": [[1j, -2j], [0.5j, 3j], [-1j, 1e-300j]],
        "complex signed zeros": [[complex(-0.0, -2.0), complex(0.0, -0.0)], [complex(-0.0, 0.0), 1j], [2.0, complex(-0.0, -0.0)]],
        "complex non-finite part": [[complex(2, INF), complex(NAN, -5)], [1.0, complex(-INF, 1)], [1j, 2.0]],
        "float inexact": [[0.1, 0.7], [0.1, 1 / 3.0], [0.7, 2.7]],
    }
    exps = [[0, 0], [1, 0], [2, 1]]
    out = []
    for label, cols in sets.items():
        for dt in (("complex128", "complex64") if label.startswith("complex") else ("float64", "float32")):
            if only is not None and only != "%s %s" % (label, dt):
                continue
            p = numpoly.ndpoly(exponents=exps, shape=shape, names=("q0", "q1"), dtype=dt)
            with numpy.errstate(all="ignore"):
                for key, col in zip(p.keys, cols):
                    p.values[key] = numpy.resize(numpy.array(col, dtype=dt), n).reshape(shape)
            out.append(("%s %s" % (label, dt), p))
    return out


def termwise(ctx, got, expected_fn, src, what: str) -> None:
    """``got`` must hold, term by term, ``expected_fn(coefficient array of src)`` -- for operations that are linear in the
    coefficients (sums along axes, means, differences, reshapes, negation, alignment): no arithmetic between terms takes place, so
    the comparison is exact (nan-aware)."""
    with numpy.errstate(all="ignore"):
        want = {m: numpy.asarray(expected_fn(c)) for m, c in terms(src).items()}
    expect_terms(ctx, got, want, what)


def close_parts(a, b, rtol=1e-12) -> bool:
    """Real and imaginary parts separately close (a part that is tiny next to the other part is still compared on its own)."""
    a, b = numpy.asarray(a), numpy.asarray(b)
    if a.shape != b.shape:
        return False
    with numpy.errstate(all="ignore"):
        for pa, pb in ((numpy.real(a), numpy.real(b)), (numpy.imag(a), numpy.imag(b))):
            fin = numpy.isfinite(pb)
            if not numpy.array_equal(numpy.isnan(pa), numpy.isnan(pb)) or not numpy.array_equal(pa[~fin & ~numpy.isnan(pb)], pb[~fin & ~numpy.isnan(pb)]):
                return False
            if numpy.any(numpy.abs(pa[fin] - pb[fin]) > rtol * numpy.abs(pb[fin])):
                return False
    return True
