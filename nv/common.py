"""Checks that ride on every E1 driver: C03 structural invariants, C17 argument snapshots."""
from __future__ import annotations

from typing import Any, List

import numpy

from . import model as M


# ------------------------------------------------------------------------------- C17
class Snap:
    __slots__ = ("kind", "shape", "names", "keys", "dtype", "cells", "raw")


def _cells(arr: numpy.ndarray):
    if arr.dtype == object:
        return list(arr.flat) if arr.shape else [arr.item() if arr.ndim == 0 else arr]
    return arr.tobytes()


def snapshot_one(x) -> Any:
    import numpoly

    s = Snap()
    if isinstance(x, numpoly.ndpoly):
        s.kind = "poly"
        s.shape = tuple(x.shape)
        s.names = tuple(x.names)
        s.keys = [str(k) for k in x.keys]
        s.dtype = x.dtype
        # read each column through ndarray indexing (honours strides; independent of ndpoly.values)
        s.cells = {k: _cells(numpy.asarray(numpy.ndarray.__getitem__(x, k))) for k in s.keys}
        return s
    if isinstance(x, numpy.ndarray):
        s.kind = "array"
        s.shape = tuple(x.shape)
        s.dtype = x.dtype
        s.names = None
        s.keys = None
        s.cells = _cells(x)
        return s
    if isinstance(x, list):
        s.kind = "list"
        s.shape = None
        s.names = s.keys = s.dtype = None
        s.cells = _flatten_list(x)
        return s
    return None


def _flatten_list(x):
    out = []
    for e in x:
        if isinstance(e, list):
            out.append(_flatten_list(e))
        else:
            out.append(e)
    return out


def snapshot_args(args) -> List[Any]:
    return [snapshot_one(a) for a in args]


def _same_cells(a, b) -> bool:
    if isinstance(a, bytes) or isinstance(b, bytes):
        return a == b
    if isinstance(a, list) and isinstance(b, list):
        if len(a) != len(b):
            return False
        for x, y in zip(a, b):
            if isinstance(x, list) or isinstance(y, list):
                if not _same_cells(x, y):
                    return False
            elif x is not y:
                # equal immutable python numbers are the same value; a *store* of an equal value
                # into an object cell is indistinguishable and harmless
                if type(x) is type(y) and isinstance(x, (int, float, bool)) and x == y:
                    continue
                return False
        return True
    return a is b


def _pairs(a, b):
    if isinstance(a, list) and isinstance(b, list) and len(a) == len(b):
        for x, y in zip(a, b):
            if isinstance(x, list) or isinstance(y, list):
                yield from _pairs(x, y)
            elif x is not y:
                yield x, y
    else:
        yield a, b


def _report_store(ctx, before, after, detail) -> bool:
    """A store was seen (element identity changed).  It is a violation only if the stored value can differ
    from the old one on this path (an equal value is unobservable); the witness makes it differ."""
    from .engine import Sym

    if isinstance(before, bytes) or isinstance(after, bytes):
        ctx.fail("mutated", detail)
        return True
    for x, y in _pairs(before, after):
        sx, sy = Sym.lift(x), Sym.lift(y)
        if sx is None or sy is None:
            ctx.fail("mutated", detail)
            return True
        z, wit = ctx.is_zero(sx - sy)
        if not z:
            ctx.fail("mutated", detail + " (old %s, new %s)" % (sx.pretty()[:30], sy.pretty()[:30]), wit)
            return True
    return False


def check_unmodified(ctx, args, snaps, what: str = "argument") -> bool:
    ok = True
    for i, (a, s) in enumerate(zip(args, snaps)):
        if s is None:
            continue
        now = snapshot_one(a)
        if now is None or now.kind != s.kind:
            ctx.fail("mutated", "%s %d changed kind" % (what, i))
            ok = False
            continue
        if now.shape != s.shape or now.names != s.names or now.keys != s.keys or now.dtype != s.dtype:
            ctx.fail("mutated", "%s %d: shape/names/keys/dtype changed: %s %s %s -> %s %s %s" % (what, i, s.shape, s.names, s.keys, now.shape, now.names, now.keys))
            ok = False
            continue
        if s.kind == "poly":
            for k in s.keys:
                if not _same_cells(s.cells[k], now.cells[k]):
                    if _report_store(ctx, s.cells[k], now.cells[k], "%s %d: coefficient column %r was written" % (what, i, [ord(c) - 59 for c in k])):
                        ok = False
                        break
        elif not _same_cells(s.cells, now.cells):
            if _report_store(ctx, s.cells, now.cells, "%s %d: array contents were written" % (what, i)):
                ok = False
    return ok


# ------------------------------------------------------------------------------- C03
def check_invariants(ctx, p, what: str = "result", expect_dtype=None) -> bool:
    """Structural well-formedness of a returned ndpoly (no forks, no solver)."""
    import numpoly

    if not isinstance(p, numpoly.ndpoly):
        return True
    ok = True
    try:
        exps = numpy.asarray(p.exponents)
        coeffs = p.coefficients
        names = tuple(p.names)
    except Exception as e:
        ctx.fail("malformed", "%s: attributes unreadable: %s: %s" % (what, type(e).__name__, str(e)[:80]))
        return False
    if exps.ndim != 2:
        ctx.fail("malformed", "%s: exponents.ndim == %d" % (what, exps.ndim))
        return False
    rows = [tuple(int(v) for v in r) for r in exps.tolist()]
    if len(set(rows)) != len(rows):
        ctx.fail("malformed", "%s: duplicate exponent rows %s" % (what, rows))
        ok = False
    if p.size and len(coeffs) != len(rows):
        ctx.fail("malformed", "%s: %d coefficients for %d exponent rows" % (what, len(coeffs), len(rows)))
        ok = False
    for c in coeffs:
        if tuple(numpy.shape(c)) != tuple(p.shape):
            ctx.fail("malformed", "%s: coefficient shape %s != array shape %s" % (what, numpy.shape(c), p.shape))
            ok = False
            break
    if len(names) < 1 or len(set(names)) != len(names) or len(names) != exps.shape[1]:
        ctx.fail("malformed", "%s: names %s vs exponent width %d" % (what, names, exps.shape[1]))
        ok = False
    # raw structured view: field names decode to the same exponents
    try:
        vals = p.values
        fnames = list(vals.dtype.names)
        dec = [[ord(ch) - numpoly.ndpoly.KEY_OFFSET for ch in f] for f in fnames]
        if [tuple(r) for r in dec] != rows and p.size:
            ctx.fail("malformed", "%s: raw field names decode to %s, exponents are %s" % (what, dec, rows))
            ok = False
        if tuple(vals.shape) != tuple(p.shape):
            ctx.fail("malformed", "%s: values.shape %s != shape %s" % (what, vals.shape, p.shape))
            ok = False
    except Exception as e:
        ctx.fail("malformed", "%s: values unreadable: %s: %s" % (what, type(e).__name__, str(e)[:80]))
        ok = False
    if expect_dtype is not None and p.dtype != expect_dtype:
        ctx.fail("dtype", "%s: dtype %s, expected %s" % (what, p.dtype, expect_dtype))
        ok = False
    return ok
