"""Independent exact sparse-polynomial model (the oracle).

``MP`` is one multivariate polynomial: {monomial: Sym}, monomial = tuple of (name, power>0)
sorted by name.  Arrays of polynomials are numpy object arrays of ``MP`` — so numpy itself
(applied to that object array) is the oracle for every shape-moving function.
"""
from __future__ import annotations

from fractions import Fraction
from typing import Any, Dict, Iterable, List, Optional, Tuple

import numpy

from .engine import ENGINE, Sym, _num, eval_sym


def _name_key(n: str):
    # sort names by numeric suffix when they have one (q2 < q10), else alphabetically
    i = len(n)
    while i > 0 and n[i - 1].isdigit():
        i -= 1
    return (n[:i], int(n[i:]) if i < len(n) else -1)


def mono_from(names: Tuple[str, ...], exps: Iterable[int]) -> Tuple:
    return tuple(sorted(((n, int(e)) for n, e in zip(names, exps) if int(e)), key=lambda t: _name_key(t[0])))


def _mmul(m1: Tuple, m2: Tuple) -> Tuple:
    d = dict(m1)
    for n, p in m2:
        d[n] = d.get(n, 0) + p
    return tuple(sorted(d.items(), key=lambda t: _name_key(t[0])))


def as_sym(x) -> Sym:
    s = Sym.lift(x)
    if s is None:
        raise TypeError("not a number: %r" % (x,))
    return s


class MP:
    __slots__ = ("terms",)

    def __init__(self, terms: Optional[Dict[Tuple, Sym]] = None):
        self.terms: Dict[Tuple, Sym] = {}
        if terms:
            for m, c in terms.items():
                c = as_sym(c)
                if not c.is_zero_syntactic():
                    self.terms[m] = c

    @staticmethod
    def const(c) -> "MP":
        return MP({(): as_sym(c)})

    @staticmethod
    def var(name: str) -> "MP":
        return MP({((name, 1),): Sym.const(1)})

    @staticmethod
    def lift(o) -> Optional["MP"]:
        if isinstance(o, MP):
            return o
        s = Sym.lift(o)
        if s is None:
            return None
        return MP.const(s)

    def coeff(self, mono: Tuple) -> Sym:
        return self.terms.get(mono, Sym.const(0))

    def names(self):
        return {n for m in self.terms for n, _ in m}

    # ring operations -------------------------------------------------------------
    def __add__(self, o):
        o = MP.lift(o)
        if o is None:
            return NotImplemented
        t = dict(self.terms)
        for m, c in o.terms.items():
            t[m] = t[m] + c if m in t else c
        return MP(t)

    __radd__ = __add__

    def __neg__(self):
        return MP({m: -c for m, c in self.terms.items()})

    def __pos__(self):
        return self

    def __sub__(self, o):
        o = MP.lift(o)
        if o is None:
            return NotImplemented
        return self + (-o)

    def __rsub__(self, o):
        o = MP.lift(o)
        if o is None:
            return NotImplemented
        return o + (-self)

    def __mul__(self, o):
        o = MP.lift(o)
        if o is None:
            return NotImplemented
        t: Dict[Tuple, Sym] = {}
        for m1, c1 in self.terms.items():
            for m2, c2 in o.terms.items():
                m = _mmul(m1, m2)
                v = c1 * c2
                t[m] = t[m] + v if m in t else v
        return MP(t)

    __rmul__ = __mul__

    def __pow__(self, n):
        n = int(n)
        if n < 0:
            raise ValueError("negative power")
        r = MP.const(1)
        base = self
        while n:  # square and multiply (exponents of 10**6 occur in the C20 ladder)
            if n & 1:
                r = r * base
            n >>= 1
            if n:
                base = base * base
        return r

    def scale(self, c) -> "MP":
        c = as_sym(c)
        return MP({m: v * c for m, v in self.terms.items()})

    def __truediv__(self, o):
        s = Sym.lift(o)
        if s is None:
            return NotImplemented
        return MP({m: v / s for m, v in self.terms.items()})

    # calculus / evaluation -----------------------------------------------------------
    def derivative(self, name: str) -> "MP":
        t: Dict[Tuple, Sym] = {}
        for m, c in self.terms.items():
            d = dict(m)
            p = d.get(name, 0)
            if not p:
                continue
            if p == 1:
                del d[name]
            else:
                d[name] = p - 1
            mm = tuple(sorted(d.items(), key=lambda t_: _name_key(t_[0])))
            v = c * p
            t[mm] = t[mm] + v if mm in t else v
        return MP(t)

    def subst(self, env: Dict[str, Any]) -> "MP":
        """Substitute names by MP / numbers (simultaneous substitution)."""
        out = MP()
        for m, c in self.terms.items():
            term = MP.const(c)
            for n, p in m:
                if n in env:
                    v = MP.lift(env[n])
                    term = term * (v ** p)
                else:
                    term = term * MP({((n, p),): Sym.const(1)})
            out = out + term
        return out

    def is_const_syntactic(self) -> bool:
        return all(m == () for m in self.terms)

    def total_degree(self) -> int:
        return max([sum(p for _, p in m) for m in self.terms] + [0])

    def concrete(self, values: Dict[str, Fraction]) -> Dict[Tuple, Fraction]:
        out = {}
        for m, c in self.terms.items():
            v = eval_sym(c, values)
            if v:
                out[m] = v
        return out

    def __repr__(self):
        if not self.terms:
            return "MP(0)"
        parts = []
        for m, c in sorted(self.terms.items()):
            mono = "*".join(n if p == 1 else f"{n}**{p}" for n, p in m)
            parts.append(f"[{c.pretty()}]" + ("*" + mono if mono else ""))
        return "MP(" + " + ".join(parts) + ")"

    # numpy object loops use == for some functions; make it structural & safe
    def __eq__(self, o):  # type: ignore
        o = MP.lift(o)
        if o is None:
            return NotImplemented
        return mp_equal_syntactic(self, o)

    __hash__ = None  # type: ignore


def mp_equal_syntactic(a: MP, b: MP) -> bool:
    for m in set(a.terms) | set(b.terms):
        if not (a.coeff(m) - b.coeff(m)).is_zero_syntactic():
            return False
    return True


def mp_diff_monos(a: MP, b: MP) -> List[Tuple[Tuple, Sym]]:
    """Monomials whose coefficient difference is not syntactically zero."""
    out = []
    for m in sorted(set(a.terms) | set(b.terms)):
        d = a.coeff(m) - b.coeff(m)
        if not d.is_zero_syntactic():
            out.append((m, d))
    return out


# --------------------------------------------------------------------------------------
# arrays of MP
# --------------------------------------------------------------------------------------


def mp_array(items, shape) -> numpy.ndarray:
    out = numpy.empty((len(items),), dtype=object)
    for i, x in enumerate(items):
        out[i] = x
    return out.reshape(shape)


def from_attributes(exponents, coefficients, names, shape) -> numpy.ndarray:
    """Model array from (exponents, coefficient arrays, names)."""
    shape = tuple(shape)
    size = int(numpy.prod(shape)) if shape else 1
    elems = [dict() for _ in range(size)]
    for row, coeff in zip(exponents, coefficients):
        mono = mono_from(tuple(names), row)
        c = numpy.asarray(coeff, dtype=object)
        if c.shape != shape:
            c = numpy.broadcast_to(c, shape)
        flat = list(c.flat) if shape else [c.item() if isinstance(c, numpy.ndarray) else c]
        for i in range(size):
            v = as_sym(flat[i])
            elems[i][mono] = elems[i][mono] + v if mono in elems[i] else v
    return mp_array([MP(e) for e in elems], shape)


def from_ndpoly(p) -> numpy.ndarray:
    """Read a numpoly.ndpoly through its public attributes into a model array."""
    if not p.size:  # empty array: no elements, nothing to denote
        return numpy.empty(tuple(p.shape), dtype=object)
    exps = numpy.asarray(p.exponents).tolist()
    coeffs = p.coefficients
    if len(coeffs) != len(exps):
        raise AssertionError("len(coefficients) %d != len(exponents) %d" % (len(coeffs), len(exps)))
    return from_attributes(exps, coeffs, tuple(p.names), tuple(p.shape))


def from_numeric(a) -> numpy.ndarray:
    """Model array of constants from a number / list / ndarray."""
    arr = numpy.asarray(a, dtype=object) if not isinstance(a, numpy.ndarray) else a
    shape = arr.shape
    flat = list(arr.flat) if shape else [arr.item() if isinstance(arr, numpy.ndarray) else arr]
    return mp_array([MP.const(as_sym(x)) for x in flat], shape)


def to_model(x) -> numpy.ndarray:
    import numpoly

    if isinstance(x, numpoly.ndpoly):
        return from_ndpoly(x)
    if isinstance(x, numpy.ndarray) and x.dtype == object and x.size and isinstance(x.flat[0], MP):
        return x
    if isinstance(x, MP):
        return mp_array([x], ())
    return from_numeric(x)


def amap(f, *arrays) -> numpy.ndarray:
    """Element-wise map with numpy broadcasting over model arrays."""
    bs = numpy.broadcast_arrays(*[numpy.asarray(a, dtype=object) for a in arrays])
    shape = bs[0].shape
    size = int(numpy.prod(shape)) if shape else 1
    flats = [list(b.flat) if shape else [b.item()] for b in bs]
    return mp_array([f(*[fl[i] for fl in flats]) for i in range(size)], shape)


def flat_items(a: numpy.ndarray) -> List[MP]:
    return list(a.flat) if a.shape else [a.item()]
