"""Replay one recorded counterexample against the unpatched library in a fresh interpreter
(native dtypes, compiled kernels, no E1 stubs).  Exit 1 = the violation reproduces."""
from __future__ import annotations

import importlib
import json
import sys
from fractions import Fraction


def main(path: str) -> int:
    with open(path) as f:
        data = json.load(f)
    rec = data["record"]
    mod = importlib.import_module(data["module"])
    case = rec["case"]
    values = {k: Fraction(v) for k, v in rec.get("values", {}).items()}
    if hasattr(mod, "replay_case"):
        issues = mod.replay_case(case, values, rec)
    else:
        from . import harness

        if rec.get("env") == "reuse":
            issues = harness.reuse_rerun(mod.body_for(case), case, {k: Fraction(v) for k, v in rec.get("values_before", {}).items()}, values, case.get("options"))
        elif rec.get("env") == "scribble":
            issues = harness.scribble_rerun(mod.body_for(case), case, values, case.get("options"))
        else:
            issues = harness.concrete_run_poisoned(mod.body_for(case), case, values, case.get("options"), reverse_ties=rec.get("env") == "reverse-ties", narrow=rec.get("env") == "int32")
    print("replay of %s: case=%s" % (path, json.dumps(case)[:400]))
    print("values:", rec.get("values"))
    for i in issues:
        print("  reproduced issue:", i.kind, "|", i.detail)
    want = rec.get("kind")
    fam = {want}
    if want == "uninitialised":
        fam.add("value")
    if want == "value":
        fam.update({"shape", "malformed"})
    hit = [i for i in issues if i.kind in fam]
    if hit:
        print("REPRODUCED")
        return 1
    print("NOT REPRODUCED (expected kind %r)" % want)
    return 0


if __name__ == "__main__":
    sys.exit(main(sys.argv[1]))
