"""E1 core: forking symbolic-execution engine over z3 and the ``Sym`` value carrier.

The real numpoly code is executed on real numpy arrays of ``dtype=object`` whose
elements are ``Sym`` objects.  A ``Sym`` is an exact rational function in named atoms
(canonical numerator/denominator polynomials with Fraction coefficients).  Arithmetic is
done syntactically on that canonical form; *every* truth test (``bool(Sym)``,
``bool(SymBool)``) goes to :meth:`Engine.decide`, which asks z3 whether the condition
and its negation are feasible under the current path condition and forks.

Paths are explored depth first by stateless re-execution of the harness function.
"""
from __future__ import annotations

import time
from fractions import Fraction
from typing import Any, Callable, Dict, List, Optional, Tuple

import numpy
import z3


class PathAbort(BaseException):
    """Raised to abandon the current path (budget exhausted / solver said unknown)."""

    def __init__(self, reason: str):
        super().__init__(reason)
        self.reason = reason


class AssumeFail(BaseException):
    """Raised when an ``assume`` is infeasible on this path (path is vacuous)."""


# --------------------------------------------------------------------------------------
# canonical polynomials in atoms:  {monomial: Fraction};  monomial = tuple((atom, pow),..)
# --------------------------------------------------------------------------------------

_ONE_MONO: Tuple = ()


def _mono_mul(m1: Tuple, m2: Tuple) -> Tuple:
    if not m1:
        return m2
    if not m2:
        return m1
    d = dict(m1)
    for a, p in m2:
        d[a] = d.get(a, 0) + p
    return tuple(sorted(d.items()))


def cp_const(c) -> Dict:
    c = Fraction(c)
    return {_ONE_MONO: c} if c else {}


def cp_add(p: Dict, q: Dict, sign: int = 1) -> Dict:
    out = dict(p)
    for m, c in q.items():
        v = out.get(m, 0) + sign * c
        if v:
            out[m] = v
        else:
            out.pop(m, None)
    return out


def cp_mul(p: Dict, q: Dict) -> Dict:
    out: Dict = {}
    for m1, c1 in p.items():
        for m2, c2 in q.items():
            m = _mono_mul(m1, m2)
            v = out.get(m, 0) + c1 * c2
            if v:
                out[m] = v
            else:
                out.pop(m, None)
    return out


def cp_scale(p: Dict, c: Fraction) -> Dict:
    if not c:
        return {}
    return {m: v * c for m, v in p.items()}


def cp_is_const(p: Dict) -> bool:
    return not p or (len(p) == 1 and _ONE_MONO in p)


def cp_const_value(p: Dict) -> Fraction:
    return p.get(_ONE_MONO, Fraction(0))


_CP_ONE = {_ONE_MONO: Fraction(1)}
TINY = Fraction(1, 10**20)


def _num(o) -> Optional[Fraction]:
    """Exact value of a concrete python/numpy number, else None."""
    if isinstance(o, (bool, numpy.bool_)):
        return Fraction(int(o))
    if isinstance(o, (int, numpy.integer)):
        return Fraction(int(o))
    if isinstance(o, Fraction):
        return o
    if isinstance(o, (float, numpy.floating)):
        f = float(o)
        if f != f or f in (float("inf"), float("-inf")):
            return None
        return Fraction(f)
    if isinstance(o, (complex, numpy.complexfloating)):
        c = complex(o)
        if c.imag == 0 and c.real == c.real and c.real not in (float("inf"), float("-inf")):
            return Fraction(c.real)  # a complex carrier of a real value (the model has no imaginary numbers)
        return None
    return None


class Sym:
    """Exact symbolic number  num/den  (canonical polynomials in atoms)."""

    __slots__ = ("num", "den", "_z3")
    # duck-typing of a 0-d numpy scalar (stub S3)
    shape: Tuple = ()
    ndim = 0
    size = 1
    dtype = numpy.dtype(object)

    def __init__(self, num: Dict, den: Optional[Dict] = None):
        self.num = num
        self.den = den if den is not None else _CP_ONE
        self._z3 = None

    # ------------------------------------------------------------------ construction
    @staticmethod
    def atom(name: str) -> "Sym":
        return Sym({((name, 1),): Fraction(1)})

    @staticmethod
    def const(c) -> "Sym":
        return Sym(cp_const(c))

    @staticmethod
    def lift(o) -> Optional["Sym"]:
        if isinstance(o, Sym):
            return o
        if isinstance(o, numpy.ndarray) and o.ndim == 0:
            return Sym.lift(o.item())
        v = _num(o)
        if v is None:
            return None
        return Sym(cp_const(v))

    # ------------------------------------------------------------------ inspection
    def is_const(self) -> bool:
        return cp_is_const(self.num) and cp_is_const(self.den)

    def const_value(self) -> Fraction:
        return cp_const_value(self.num) / cp_const_value(self.den)

    def atoms(self):
        s = set()
        for p in (self.num, self.den):
            for m in p:
                for a, _ in m:
                    s.add(a)
        return s

    @property
    def tainted(self) -> bool:
        return any(a.startswith("havoc!") for a in self.atoms())

    def is_zero_syntactic(self) -> bool:
        return not self.num

    # ------------------------------------------------------------------ z3
    def z3(self):
        if self._z3 is None:
            n = _cp_to_z3(self.num)
            if self.den is _CP_ONE or self.den == _CP_ONE:
                self._z3 = n
            else:
                self._z3 = n / _cp_to_z3(self.den)
        return self._z3

    # ------------------------------------------------------------------ arithmetic
    def _bin(self, o, op: str, rev: bool = False):
        b = Sym.lift(o)
        if b is None:
            return NotImplemented
        a = self
        if rev:
            a, b = b, a
        ENGINE.note_op(a, b)
        if op == "add" or op == "sub":
            sign = 1 if op == "add" else -1
            if a.den == b.den:
                return Sym(cp_add(a.num, b.num, sign), a.den)
            return Sym(
                cp_add(cp_mul(a.num, b.den), cp_mul(b.num, a.den), sign),
                cp_mul(a.den, b.den),
            )
        if op == "mul":
            return Sym(cp_mul(a.num, b.num), cp_mul(a.den, b.den) if (a.den != _CP_ONE or b.den != _CP_ONE) else _CP_ONE)
        if op == "div":
            if b.is_const():
                v = b.const_value()
                if v == 0:
                    raise ZeroDivisionError("Sym division by literal zero")
                return Sym(cp_scale(a.num, 1 / v), a.den)
            # division by a symbolic value: must be non-zero on this path
            if not ENGINE.decide(b.z3() != 0, tainted=b.tainted):
                raise ZeroDivisionError("Sym division by (symbolic) zero")
            return Sym(cp_mul(a.num, b.den), cp_mul(a.den, b.num))
        raise AssertionError(op)

    def __add__(self, o):
        return self._bin(o, "add")

    def __radd__(self, o):
        return self._bin(o, "add", True)

    def __sub__(self, o):
        return self._bin(o, "sub")

    def __rsub__(self, o):
        return self._bin(o, "sub", True)

    def __mul__(self, o):
        return self._bin(o, "mul")

    def __rmul__(self, o):
        return self._bin(o, "mul", True)

    def __truediv__(self, o):
        return self._bin(o, "div")

    def __rtruediv__(self, o):
        return self._bin(o, "div", True)

    def __pow__(self, n, mod=None):
        if isinstance(n, Sym):
            if not n.is_const():
                return NotImplemented
            n = n.const_value()
        v = _num(n)
        if v is not None and v == Fraction(1, 2):
            return ENGINE.sqrt_of(self)
        if v is None or v.denominator != 1 or v < 0:
            return NotImplemented
        r = Sym(_CP_ONE)
        for _ in range(int(v)):
            r = r * self
        return r

    def __rpow__(self, base):
        # base ** Sym : only for concrete exponent
        if self.is_const():
            b = Sym.lift(base)
            if b is None:
                return NotImplemented
            return b ** self.const_value()
        return NotImplemented

    def __neg__(self):
        return Sym(cp_scale(self.num, Fraction(-1)), self.den)

    def __pos__(self):
        return self

    def __abs__(self):
        if self.is_const():
            return Sym(cp_const(abs(self.const_value())))
        return SymAbs(self)

    def conjugate(self):
        return self

    conj = conjugate

    @property
    def real(self):
        return self

    @property
    def imag(self):
        return Sym({})

    # floor division / modulo: floor(x / y) is a fresh *integer* atom k with k <= x/y < k+1 (python/numpy floor semantics)
    def __floordiv__(self, o):
        b = Sym.lift(o)
        if b is None:
            return NotImplemented
        if self.is_const() and b.is_const():
            if b.const_value() == 0:
                raise ZeroDivisionError("Sym floor division by zero")
            return Sym(cp_const(self.const_value() // b.const_value()))
        return ENGINE.floor_of(self / b)

    def __rfloordiv__(self, o):
        a = Sym.lift(o)
        if a is None:
            return NotImplemented
        return a // self

    def __mod__(self, o):
        b = Sym.lift(o)
        if b is None:
            return NotImplemented
        if self.is_const() and b.is_const():
            return Sym(cp_const(self.const_value() % b.const_value()))
        return self - b * (self // b)

    def __rmod__(self, o):
        a = Sym.lift(o)
        if a is None:
            return NotImplemented
        return a % self

    def __divmod__(self, o):
        q = self // o
        if q is NotImplemented:
            return NotImplemented
        return q, self - Sym.lift(o) * q

    def __floor__(self):
        return ENGINE.floor_of(self)

    def __ceil__(self):
        return -ENGINE.floor_of(-self)

    # ------------------------------------------------------------------ comparisons
    def _cmp(self, o, op: str):
        b = Sym.lift(o)
        if b is None:
            return NotImplemented
        if b.is_const() and 0 < abs(b.const_value()) < TINY and not self.is_const():
            # assumption A-tiny: no symbolic value lies strictly between 0 and +-1e-20 (so a comparison with
            # a tiny cut-off constant is a comparison with 0); recorded in the evidence when used
            ENGINE.assumptions_used.add("A-tiny: symbolic values are 0 or at least 1e-20 in magnitude")
            pos = b.const_value() > 0
            op = {"lt": "le" if pos else "lt", "le": "le" if pos else "lt", "gt": "gt" if pos else "ge", "ge": "gt" if pos else "ge", "eq": "eq", "ne": "ne"}[op]
            if op in ("eq", "ne"):
                return numpy.bool_(op == "ne")
            b = Sym(cp_const(0))
        d = self - b
        if d.is_const():
            v = d.const_value()
            return numpy.bool_({"eq": v == 0, "ne": v != 0, "lt": v < 0, "le": v <= 0, "gt": v > 0, "ge": v >= 0}[op])
        # like numpy's object loops (OO->?), a comparison is decided on the spot: fork here
        x = _cp_to_z3(d.num) if d.den == _CP_ONE else d.z3()
        t = {"eq": x == 0, "ne": x != 0, "lt": x < 0, "le": x <= 0, "gt": x > 0, "ge": x >= 0}[op]
        return numpy.bool_(ENGINE.decide(t, tainted=d.tainted))

    def __eq__(self, o):  # type: ignore
        return self._cmp(o, "eq")

    def __ne__(self, o):  # type: ignore
        return self._cmp(o, "ne")

    def __lt__(self, o):
        return self._cmp(o, "lt")

    def __le__(self, o):
        return self._cmp(o, "le")

    def __gt__(self, o):
        return self._cmp(o, "gt")

    def __ge__(self, o):
        return self._cmp(o, "ge")

    __hash__ = None  # type: ignore

    def truth(self) -> "SymBool":
        """Non-deciding truth value (x != 0) as a SymBool."""
        if self.is_const():
            return SymBool(None, self.const_value() != 0)
        if not self.num:
            return SymBool(None, False)
        return SymBool(_cp_to_z3(self.num) != 0, None, self.tainted)

    def __bool__(self):
        if self.is_const():
            return self.const_value() != 0
        if not self.num:
            return False
        return ENGINE.decide(_cp_to_z3(self.num) != 0, tainted=self.tainted)

    # ------------------------------------------------------------------ text (stub S5)
    def __str__(self):
        return ENGINE.str_hook(self)

    def __repr__(self):
        return "<" + self.pretty() + ">"

    def __format__(self, spec):
        return ENGINE.str_hook(self)

    def __float__(self):
        return ENGINE.float_hook(self)

    def __int__(self):
        if self.is_const() and self.const_value().denominator == 1:
            return int(self.const_value())
        raise TypeError("int() of a symbolic value")

    __index__ = None  # type: ignore

    def pretty(self) -> str:
        def pp(p):
            if not p:
                return "0"
            parts = []
            for m, c in sorted(p.items()):
                mono = "*".join(a if e == 1 else f"{a}^{e}" for a, e in m)
                if not mono:
                    parts.append(str(c))
                elif c == 1:
                    parts.append(mono)
                else:
                    parts.append(f"{c}*{mono}")
            return " + ".join(parts)

        if self.den == _CP_ONE:
            return pp(self.num)
        return f"({pp(self.num)})/({pp(self.den)})"

    # ------------------------------------------------------------------ numpy-scalar duck typing (S3)
    @property
    def T(self):
        return self

    def item(self, *a):
        return self

    def ravel(self, *a, **k):
        out = numpy.empty((1,), dtype=object)
        out[0] = self
        return out

    flatten = ravel

    def reshape(self, *shape, **k):
        if len(shape) == 1 and isinstance(shape[0], (tuple, list)):
            shape = tuple(shape[0])
        out = numpy.empty((1,), dtype=object)
        out[0] = self
        return out.reshape(shape)

    def astype(self, dt, **k):
        return self

    def copy(self, *a, **k):
        return self

    def __copy__(self):
        return self

    def __deepcopy__(self, memo):
        return self

    def __reduce__(self):
        return (_sym_rebuild, (self.num, self.den))

    def tolist(self):
        return self

    def __array__(self, dtype=None, copy=None):
        out = numpy.empty((), dtype=object)
        out[()] = self
        return out

    def sum(self, *a, **k):
        return self

    def prod(self, *a, **k):
        return self

    def any(self, *a, **k):
        return bool(self)

    def all(self, *a, **k):
        return bool(self)

    def squeeze(self, *a, **k):
        return self

    def __getitem__(self, idx):
        r = self.__array__()[idx]  # numpy's own rules for indexing a 0-d array / scalar
        if isinstance(r, numpy.ndarray) and r.ndim == 0:
            return r.item()
        return r

    def __len__(self):
        raise TypeError("len() of unsized object")


class SymAbs(Sym):
    """|x| of a symbolic x, kept lazy: a comparison with a constant is decided as ONE condition
    (-c < x < c) instead of first forking on the sign of x.  Any other use forces the sign fork."""

    __slots__ = ("inner", "_forced")

    def __init__(self, inner: Sym):
        self.inner = inner
        self._forced = None
        self._z3 = None

    def _force(self) -> Sym:
        if self._forced is None:
            x = self.inner
            self._forced = x if ENGINE.decide(x.z3() >= 0, tainted=x.tainted) else -x
        return self._forced

    @property
    def num(self):  # type: ignore
        return self._force().num

    @property
    def den(self):  # type: ignore
        return self._force().den

    def _cmp(self, o, op: str):
        b = Sym.lift(o)
        if b is None:
            return NotImplemented
        if self._forced is None and b.is_const():
            c = b.const_value()
            x = self.inner
            if 0 < c < TINY:
                # A-tiny: |x| < tiny  <=>  x == 0
                ENGINE.assumptions_used.add("A-tiny: symbolic values are 0 or at least 1e-20 in magnitude")
                if op in ("eq", "ne"):
                    return numpy.bool_(op == "ne")
                zero = ENGINE.decide(x.truth().z3() if x.truth().t is not None else z3.BoolVal(x.truth().c), tainted=x.tainted) is False
                return numpy.bool_(zero if op in ("lt", "le") else not zero)
            if c < 0:
                return numpy.bool_(op in ("gt", "ge", "ne"))
            xz = x.z3()
            cz = z3.RealVal(str(c)) if not ENGINE.int_atoms or c.denominator != 1 else z3.IntVal(int(c))
            t = {
                "lt": z3.And(xz < cz, xz > -cz),
                "le": z3.And(xz <= cz, xz >= -cz),
                "gt": z3.Or(xz > cz, xz < -cz),
                "ge": z3.Or(xz >= cz, xz <= -cz),
                "eq": z3.Or(xz == cz, xz == -cz),
                "ne": z3.And(xz != cz, xz != -cz),
            }[op]
            return numpy.bool_(ENGINE.decide(t, tainted=x.tainted))
        return Sym._cmp(self._force(), o, op)

    def is_const(self) -> bool:
        return False if self._forced is None else self._forced.is_const()

    def atoms(self):
        return self.inner.atoms()

    def truth(self):
        return self.inner.truth()

    def __bool__(self):
        return bool(self.inner)

    def __abs__(self):
        return self

    def z3(self):
        return self._force().z3()

    def pretty(self) -> str:
        return "|%s|" % self.inner.pretty()

    def __reduce__(self):
        f = self._force()
        return (_sym_rebuild, (f.num, f.den))


def _sym_rebuild(num, den):
    return Sym(num, den)


_Z3_ATOMS: Dict[str, Any] = {}
_Z3_CACHE: Dict[Any, Any] = {}


def z3_atom(name: str):
    v = _Z3_ATOMS.get(name)
    if v is None:
        if name.startswith("floor!"):
            v = z3.Int(name)
        else:
            v = z3.Int(name) if (ENGINE.int_atoms and not name.startswith("sqrt!")) else z3.Real(name)
        _Z3_ATOMS[name] = v
    return v


def _cp_to_z3(p: Dict):
    key = tuple(sorted(p.items()))
    r = _Z3_CACHE.get(key)
    if r is not None:
        return r
    mk = z3.IntVal if ENGINE.int_atoms else z3.RealVal
    terms = []
    for m, c in sorted(p.items()):
        factors = []
        for a, e in m:
            v = z3_atom(a)
            factors.extend([v] * e)
        if c.denominator != 1:
            coef = z3.RealVal(str(c))
        else:
            coef = mk(int(c))
        if not factors:
            terms.append(coef)
        else:
            t = factors[0]
            for f in factors[1:]:
                t = t * f
            terms.append(t if c == 1 else coef * t)
    if not terms:
        r = mk(0)
    elif len(terms) == 1:
        r = terms[0]
    else:
        r = z3.Sum(terms)
    if len(_Z3_CACHE) > 200000:
        _Z3_CACHE.clear()
    _Z3_CACHE[key] = r
    return r


class SymBool:
    """Symbolic truth value; ``bool()`` forks."""

    __slots__ = ("t", "c", "tainted")

    def __init__(self, t, c: Optional[bool] = None, tainted: bool = False):
        self.t = t
        self.c = c
        self.tainted = tainted

    def z3(self):
        return z3.BoolVal(self.c) if self.t is None else self.t

    def __bool__(self):
        if self.t is None:
            return bool(self.c)
        return ENGINE.decide(self.t, tainted=self.tainted)

    @staticmethod
    def lift(o) -> Optional["SymBool"]:
        if isinstance(o, SymBool):
            return o
        if isinstance(o, (bool, numpy.bool_)):
            return SymBool(None, bool(o))
        if isinstance(o, Sym):
            return o.truth()
        return None

    def _comb(self, o, f, cf):
        b = SymBool.lift(o)
        if b is None:
            return NotImplemented
        if self.t is None and b.t is None:
            return SymBool(None, cf(self.c, b.c))
        return SymBool(f(self.z3(), b.z3()), None, self.tainted or b.tainted)

    def __and__(self, o):
        return self._comb(o, z3.And, lambda a, b: a and b)

    __rand__ = __and__

    def __or__(self, o):
        return self._comb(o, z3.Or, lambda a, b: a or b)

    __ror__ = __or__

    def __xor__(self, o):
        return self._comb(o, z3.Xor, lambda a, b: a != b)

    __rxor__ = __xor__

    def __invert__(self):
        if self.t is None:
            return SymBool(None, not self.c)
        return SymBool(z3.Not(self.t), None, self.tainted)

    def __eq__(self, o):  # type: ignore
        return self._comb(o, lambda a, b: a == b, lambda a, b: a == b)

    def __ne__(self, o):  # type: ignore
        return self._comb(o, lambda a, b: a != b, lambda a, b: a != b)

    __hash__ = None  # type: ignore

    def __repr__(self):
        return f"B<{self.c if self.t is None else self.t}>"


# --------------------------------------------------------------------------------------
# the engine
# --------------------------------------------------------------------------------------


class PathResult:
    __slots__ = ("decisions", "pc", "value", "exc", "aborted", "events", "model_hint")

    def __init__(self):
        self.decisions: List[bool] = []
        self.pc: List[Any] = []
        self.value = None
        self.exc: Optional[BaseException] = None
        self.aborted: Optional[str] = None
        self.events: List[Tuple[str, str]] = []


class Engine:
    def __init__(self):
        self.int_atoms = False
        self.solver = z3.Solver()
        self.query_timeout_ms = 10000
        self.reset_stats()
        self.active = False
        self.prefix: List[bool] = []
        self.pos = 0
        self.trace: List[Tuple[Any, bool, bool]] = []
        self.models: List[Any] = []
        self.events: List[Tuple[str, str]] = []
        self.max_decisions = 400
        self.str_hook: Callable[[Sym], str] = lambda s: s.pretty()
        self.float_hook: Callable[[Sym], float] = _default_float
        self.deadline: Optional[float] = None
        self.havoc_counter = 0
        self.atom_counter = 0
        self.path_cache: Dict[Any, Any] = {}
        self.assumptions_used = set()
        self.decided: Dict[str, bool] = {}
        self._keep: List[Any] = []

    def reset_stats(self):
        self.stats = {
            "feasibility_queries": 0,
            "validity_queries": 0,
            "sat": 0,
            "unsat": 0,
            "unknown": 0,
            "solver_s": 0.0,
            "model_cache_hits": 0,
            "paths": 0,
            "decisions": 0,
        }

    def set_int_atoms(self, flag: bool):
        if flag != self.int_atoms:
            self.int_atoms = flag
            _Z3_ATOMS.clear()
            _Z3_CACHE.clear()

    # ------------------------------------------------------------------ solver plumbing
    def _new_solver(self, mixed: bool = False):
        """Real atoms only (the default): z3's complete non-linear real procedure (nlsat).  The general incremental solver was
        seen to run > 300 s on a two-equation cubic query, ignoring both its timeout and an interrupt; it is used only where
        integers are involved (int_atoms cases, floor atoms)."""
        self._mixed = bool(mixed or self.int_atoms)
        s = z3.Solver() if self._mixed else z3.SolverFor("QF_NRA")
        s.set("timeout", self.query_timeout_ms)
        return s

    def _go_mixed(self):
        """Switch the current path's solver to the general one (an integer-valued atom is about to be introduced)."""
        if getattr(self, "_mixed", True):
            return
        old = self.solver
        self.solver = self._new_solver(mixed=True)
        for a in old.assertions():
            self.solver.add(a)

    def _watchdog_start(self):
        """z3's own ``timeout`` is not honoured inside some non-linear arithmetic loops (a 10 s query was seen to run 300 s):
        a daemon thread interrupts the context when a query overruns its deadline; the query then answers ``unknown``."""
        import threading

        if getattr(self, "_wd", None) is not None:
            return
        self._wd_deadline = None

        def loop():
            while True:
                time.sleep(0.5)
                d = self._wd_deadline
                if d is not None and time.time() > d:
                    self._wd_deadline = None
                    try:
                        z3.main_ctx().interrupt()
                        self.stats["interrupted"] = self.stats.get("interrupted", 0) + 1
                    except Exception:
                        pass

        self._wd = threading.Thread(target=loop, daemon=True)
        self._wd.start()

    def _check(self, *assumptions, kind="feasibility_queries"):
        t0 = time.time()
        self.stats[kind] += 1
        self._watchdog_start()
        self._wd_deadline = t0 + self.query_timeout_ms / 1000.0 + 2.0
        try:
            r = self.solver.check(*assumptions)
        except z3.Z3Exception:
            r = z3.unknown  # interrupted
        finally:
            self._wd_deadline = None
        self.stats["solver_s"] += time.time() - t0
        s = str(r)
        self.stats[s] = self.stats.get(s, 0) + 1
        return s

    def _model_says(self, t) -> Optional[bool]:
        for m in self.models:
            try:
                v = m.eval(t, model_completion=True)
            except z3.Z3Exception:
                continue
            if z3.is_true(v):
                return True
        return None

    def _feasible(self, t) -> Optional[bool]:
        if self._model_says(t):
            self.stats["model_cache_hits"] += 1
            return True
        r = self._check(t)
        if r == "sat":
            try:
                self.models.append(self.solver.model())
                if len(self.models) > 6:
                    self.models.pop(0)
            except z3.Z3Exception:
                pass
            return True
        if r == "unsat":
            return False
        return None

    def _assert(self, t):
        self.solver.add(t)
        keep = []
        for m in self.models:
            try:
                if z3.is_true(m.eval(t, model_completion=True)):
                    keep.append(m)
            except z3.Z3Exception:
                pass
        self.models = keep

    # ------------------------------------------------------------------ the branching hook
    def note_op(self, a, b):
        pass

    def event(self, kind: str, detail: str):
        self.events.append((kind, detail))

    def decide(self, t, tainted: bool = False) -> bool:
        if not self.active:
            raise RuntimeError("symbolic branch outside Engine.explore: %s" % t)
        # cache key = the term as constructed (deterministic across re-executions; z3.simplify orders
        # arguments by AST id, which is not)
        tid = t.sexpr()
        hit = self.decided.get(tid)
        if hit is not None:
            return hit
        t = z3.simplify(t)
        if z3.is_true(t):
            self.decided[tid] = True
            return True
        if z3.is_false(t):
            self.decided[tid] = False
            return False
        if tainted:
            self.event("havoc-branch", str(t)[:200])
        if self.deadline is not None and time.time() > self.deadline:
            raise PathAbort("time budget")
        self.stats["decisions"] += 1
        val = self._decide(t)
        self.decided[tid] = val
        self._keep.append(t)
        return val

    def _decide(self, t) -> bool:
        if self.pos < len(self.prefix):
            val = self.prefix[self.pos]
            self.pos += 1
            c = t if val else z3.Not(t)
            self._assert(c)
            self.trace.append((c, val, False))
            return val
        if len(self.trace) >= self.max_decisions:
            raise PathAbort("decision bound")
        self.pos += 1
        ft = self._feasible(t)
        ff = self._feasible(z3.Not(t))
        if ft is None or ff is None:
            # solver said unknown for one side
            if ft or ff:
                val = bool(ft)
                c = t if val else z3.Not(t)
                self._assert(c)
                self.trace.append((c, val, False))
                self.event("inconclusive", "solver unknown on one side of a branch")
                return val
            raise PathAbort("solver unknown")
        if ft and ff:
            self._assert(t)
            self.trace.append((t, True, True))
            return True
        if not ft and not ff:
            raise PathAbort("infeasible path (inconsistent path condition)")
        val = bool(ft)
        c = t if val else z3.Not(t)
        self._assert(c)
        self.trace.append((c, val, False))
        return val

    def sqrt_of(self, x: "Sym") -> "Sym":
        """x ** 0.5 as a fresh non-negative atom s with s*s == x (memoised per path; x >= 0 is required)."""
        if x.is_const():
            v = x.const_value()
            if v < 0:
                raise ValueError("sqrt of a negative constant")
            import math

            n, d = math.isqrt(v.numerator), math.isqrt(v.denominator)
            if n * n == v.numerator and d * d == v.denominator:
                return Sym(cp_const(Fraction(n, d)))
        key = ("sqrt", tuple(sorted(x.num.items())), tuple(sorted(x.den.items())))
        hit = self.path_cache.get(key)
        if hit is not None:
            return hit
        n = sum(1 for k in self.path_cache if isinstance(k, tuple) and k and k[0] == "sqrt")
        s = Sym.atom("sqrt!%d" % n)
        sz = z3_atom("sqrt!%d" % n)
        self.assume(z3.And(sz >= 0, sz * sz == x.z3()))
        self.path_cache[key] = s
        return s

    def floor_of(self, x: "Sym") -> "Sym":
        if x.is_const():
            import math

            return Sym(cp_const(math.floor(x.const_value())))
        key = ("floor", tuple(sorted(x.num.items())), tuple(sorted(x.den.items())))
        hit = self.path_cache.get(key)
        if hit is not None:
            return hit
        n = sum(1 for k in self.path_cache if isinstance(k, tuple) and k and k[0] == "floor")
        k = Sym.atom("floor!%d" % n)
        kz = z3_atom("floor!%d" % n)
        xz = x.z3()
        self._go_mixed()
        self.assume(z3.And(z3.ToReal(kz) <= xz, xz < z3.ToReal(kz) + 1) if not self.int_atoms or x.den != _CP_ONE else z3.And(kz <= xz, xz < kz + 1))
        self.path_cache[key] = k
        return k

    def assume(self, t):
        """Constrain the current path; abandon it if infeasible."""
        t = z3.simplify(t)
        if z3.is_true(t):
            return
        if z3.is_false(t) or not self._feasible(t):
            raise AssumeFail()
        self._assert(t)

    # ------------------------------------------------------------------ validity on the current path
    def prove(self, t) -> Tuple[str, Optional[Any]]:
        """Is ``t`` valid under the current path condition? -> ('valid'|'invalid'|'unknown', model)."""
        t = z3.simplify(t)
        if z3.is_true(t):
            return "valid", None
        r = self._check(z3.Not(t), kind="validity_queries")
        if r == "unsat":
            return "valid", None
        if r == "sat":
            return "invalid", self.solver.model()
        return "unknown", None

    def prove_zero(self, d: "Sym") -> Tuple[str, Optional[Any]]:
        if not d.num:
            return "valid", None
        if d.is_const():
            return ("valid" if d.const_value() == 0 else "invalid"), (self.any_model() if d.const_value() != 0 else None)
        return self.prove(_cp_to_z3(d.num) == 0)

    def any_model(self):
        if self.models:
            return self.models[-1]
        if self._check() == "sat":
            return self.solver.model()
        return None

    def small_model(self, extra=None, atoms=(), bound=8):
        """A model of PC (and ``extra``) preferring small integers for replay."""
        cons = [] if extra is None else [extra]
        vs = [z3_atom(a) for a in atoms]
        if not getattr(self, "_mixed", True):
            # real arithmetic only (nlsat): box the atoms, then pin them one by one to an integer next to the model's value
            import math

            for b in (bound, 1024):
                box = []
                for v in vs:
                    box += [v >= -b, v <= b]
                if self._check(*(cons + box), kind="validity_queries") != "sat":
                    continue
                m = self.solver.model()
                fixed: List[Any] = []
                for a, v in zip(atoms, vs):
                    try:
                        val = model_value(m, a)
                    except Exception:
                        continue
                    if val.denominator == 1:
                        fixed.append(v == int(val))
                        continue
                    for cand in (math.floor(val), math.ceil(val)):
                        if self._check(*(cons + box + fixed + [v == cand]), kind="validity_queries") == "sat":
                            fixed.append(v == cand)
                            m = self.solver.model()
                            break
                if self._check(*(cons + box + fixed), kind="validity_queries") == "sat":
                    return self.solver.model()
                return m
            if self._check(*cons, kind="validity_queries") == "sat":
                return self.solver.model()
            return None
        for b in (bound, 64, 1024):
            small = []
            for v in vs:
                small.append(v >= -b)
                small.append(v <= b)
                if not self.int_atoms:
                    small.append(z3.IsInt(v))
            if self._check(*(cons + small), kind="validity_queries") == "sat":
                return self.solver.model()
        if self._check(*cons, kind="validity_queries") == "sat":
            return self.solver.model()
        return None

    # ------------------------------------------------------------------ exploration
    def explore(
        self,
        fn: Callable[[], Any],
        on_path: Callable[[PathResult], None],
        max_paths: int = 2000,
        time_budget: float = 60.0,
    ) -> Dict[str, Any]:
        """Run ``fn`` on every feasible path.  ``on_path`` is called *inside* the path's solver
        context (path condition asserted) so it can discharge validity queries."""
        work: List[List[bool]] = [[]]
        t_end = time.time() + time_budget
        summary = {"paths": 0, "aborted": 0, "abort_reasons": {}, "exhausted": True, "max_depth": 0}
        while work:
            if summary["paths"] >= max_paths or time.time() > t_end:
                summary["exhausted"] = False
                break
            prefix = work.pop()
            self.prefix = prefix
            self.pos = 0
            self.trace = []
            self.models = []
            self.events = []
            self.havoc_counter = 0
            self.atom_counter = 0
            self.path_cache = {}
            self.decided = {}
            self._keep = []
            self.deadline = t_end
            self.solver = self._new_solver()
            self.active = True
            res = PathResult()
            try:
                try:
                    res.value = fn()
                except PathAbort as e:
                    res.aborted = e.reason
                except AssumeFail:
                    res.aborted = "assume-infeasible"
                except RecursionError as e:
                    res.exc = e
                except Exception as e:  # the harness records library exceptions as results
                    res.exc = e
                res.decisions = [v for (_, v, _) in self.trace]
                res.pc = [c for (c, _, _) in self.trace]
                res.events = list(self.events)
                for k in range(len(prefix), len(self.trace)):
                    if self.trace[k][2]:
                        work.append([v for (_, v, _) in self.trace[:k]] + [False])
                summary["paths"] += 1
                self.stats["paths"] += 1
                summary["max_depth"] = max(summary["max_depth"], len(self.trace))
                if res.aborted:
                    summary["aborted"] += 1
                    summary["abort_reasons"][res.aborted] = summary["abort_reasons"].get(res.aborted, 0) + 1
                    if res.aborted not in ("assume-infeasible",):
                        summary["exhausted"] = False
                try:
                    on_path(res)
                except PathAbort as e:
                    summary["aborted"] += 1
                    summary["abort_reasons"]["post:" + e.reason] = summary["abort_reasons"].get("post:" + e.reason, 0) + 1
                    summary["exhausted"] = False
            finally:
                self.active = False
        return summary


def _default_float(s: Sym) -> float:
    if s.is_const():
        return float(s.const_value())
    # only usable in sign tests: fork on sign
    if ENGINE.decide(s.z3() > 0, tainted=s.tainted):
        return 1.0
    if ENGINE.decide(s.z3() < 0, tainted=s.tainted):
        return -1.0
    return 0.0


ENGINE = Engine()


# --------------------------------------------------------------------------------------
# helpers for building object arrays
# --------------------------------------------------------------------------------------


def oarray(items, shape=None) -> numpy.ndarray:
    """Object ndarray from a flat python list of Sym / numbers."""
    items = list(items)
    out = numpy.empty((len(items),), dtype=object)
    for i, x in enumerate(items):
        out[i] = x
    if shape is not None:
        out = out.reshape(shape)
    return out


def model_value(model, name: str) -> Fraction:
    v = model.eval(z3_atom(name), model_completion=True)
    if z3.is_int_value(v):
        return Fraction(v.as_long())
    if z3.is_rational_value(v):
        return Fraction(v.numerator_as_long(), v.denominator_as_long())
    if z3.is_algebraic_value(v):
        a = v.approx(20)
        return Fraction(a.numerator_as_long(), a.denominator_as_long())
    raise ValueError("cannot read model value %r" % v)


def eval_sym(s, values: Dict[str, Fraction]) -> Fraction:
    """Evaluate a Sym (or number) with concrete atom values."""
    if not isinstance(s, Sym):
        v = _num(s)
        if v is None:
            raise ValueError("not a number: %r" % (s,))
        return v

    def ev(p):
        tot = Fraction(0)
        for m, c in p.items():
            t = c
            for a, e in m:
                t *= values[a] ** e
            tot += t
        return tot

    return ev(s.num) / ev(s.den)
