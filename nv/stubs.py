"""Environment model for E1 (DESIGN §2.2).  No numpoly source line is changed: every stub is
installed harness-side by rebinding module attributes of the *imported* /repo modules.

S1  kernel specifications for object-dtype buffers (native dtypes still reach the .so)
S2  numpy.empty(...) object arrays unwrap 0-d object arrays on item assignment
S4  argsort/sort without kind="stable": adversarial tie order (solver/fork chooses)
S7  Havoc-filled fresh ndpoly buffers
S10 numpy.any/numpy.all on object arrays: one merged disjunction/conjunction per slice
"""
from __future__ import annotations

import sys
import types
from typing import Any, Dict, List

import numpy
import z3

from .engine import ENGINE, Sym, SymBool, oarray

import numpoly  # noqa: E402  (imported from /repo through the .pth overlay)

REAL = {
    "cset_values": numpoly.cset_values,
    "cadd_values": numpoly.cadd_values,
    "cfrom_attributes": numpoly.cfrom_attributes,
    "cmultiply": numpoly.cmultiply,
}

STUBS_USED: Dict[str, int] = {}


def _used(name: str):
    STUBS_USED[name] = STUBS_USED.get(name, 0) + 1


def _is_obj(out) -> bool:
    return out.dtype.names is not None and out.dtype[0] == object


# ----------------------------------------------------------------------------- S1 kernels
def _memview_contract(coeffs):
    """`T [::1] coeffs` in cvalues.pyx: a 1-d, C-contiguous, *writable* buffer is required."""
    if coeffs.ndim != 1:
        raise ValueError("Buffer has wrong number of dimensions (expected 1, got %d)" % coeffs.ndim)
    if not coeffs.flags.c_contiguous:
        raise ValueError("ndarray is not C-contiguous")
    if not coeffs.flags.writeable:
        raise ValueError("buffer source array is read-only")


def cset_values(coeffs, name, out):
    if not _is_obj(out) and coeffs.dtype != object:
        return REAL["cset_values"](coeffs, name, out)
    _used("S1:cset_values")
    _memview_contract(coeffs)
    field = out[name]  # KeyError/ValueError if no such field, as out.dtype.fields[name] would
    flat = field.reshape(-1) if field.ndim else field.reshape(1)
    for i in range(out.size):
        flat[i] = coeffs[i]  # IndexError if coeffs is short (Cython bounds check)


def cadd_values(coeffs, name, out):
    if not _is_obj(out) and coeffs.dtype != object:
        return REAL["cadd_values"](coeffs, name, out)
    _used("S1:cadd_values")
    _memview_contract(coeffs)
    field = out[name]
    flat = field.reshape(-1) if field.ndim else field.reshape(1)
    for i in range(out.size):
        flat[i] = flat[i] + coeffs[i]


def cfrom_attributes(coeffs, poly):
    if not _is_obj(poly):
        return REAL["cfrom_attributes"](coeffs, poly)
    _used("S1:cfrom_attributes")
    names = poly.dtype.names
    for i in range(len(names)):
        numpoly.cset_values(numpy.asarray(coeffs[i]).ravel(), str(names[i]), poly)


def c_key(row1, row2, offset: int) -> str:
    """sprintf("%c", e1+e2+offset) per column into a char buffer, decoded as UTF-8."""
    bs = bytes(((int(a) + int(b) + int(offset)) & 0xFFFFFFFF) & 0xFF for a, b in zip(row1, row2))
    return bs.decode("utf-8")


def cmultiply(e1, e2, c1, c2, offset, out):
    if not _is_obj(out):
        return REAL["cmultiply"](e1, e2, c1, c2, offset, out)
    _used("S1:cmultiply")
    if e1.dtype != numpy.uint32 or e2.dtype != numpy.uint32 or e1.ndim != 2 or e2.ndim != 2:
        raise ValueError("Buffer dtype mismatch (typed ndarray argument)")
    seen = set()
    for i in range(e1.shape[0]):
        for j in range(e2.shape[0]):
            key = c_key(e1[i], e2[j], offset)
            prod = numpy.asarray(c1[i] * c2[j]).ravel()
            if key in seen:
                numpoly.cadd_values(prod, key, out)
            else:
                numpoly.cset_values(prod, key, out)
                seen.add(key)


# ----------------------------------------------------------------------------- S2/S4/S10 numpy proxy
def symify(arr: numpy.ndarray) -> numpy.ndarray:
    """In object arrays every plain python/numpy number becomes a constant Sym (so that results
    of object loops always carry the scalar interface: .shape, .dtype, ...)."""
    if arr.dtype == object and arr.dtype.names is None:
        arr = arr.view(numpy.ndarray) if type(arr) is not numpy.ndarray else arr
        flat = arr.reshape(-1) if arr.ndim else arr.reshape(1)
        for i in range(flat.size):
            x = flat[i]
            if not isinstance(x, (Sym, SymBool)) and isinstance(x, (int, float, numpy.number, numpy.bool_)):
                flat[i] = Sym.const(x)
    return arr


class OArr(numpy.ndarray):
    """Object array that stores the *element* when assigned a 0-d object array (numpy's
    semantics for every numeric dtype)."""

    def __setitem__(self, idx, val):
        if isinstance(val, numpy.ndarray) and val.ndim == 0 and val.dtype == object:
            val = numpy.ndarray.__getitem__(val, ())
        if isinstance(val, (int, float, numpy.number, numpy.bool_)) and not isinstance(val, bool):
            val = Sym.const(val)
        elif isinstance(val, numpy.ndarray) and val.dtype == object and val.dtype.names is None:
            val = symify(numpy.array(val.view(numpy.ndarray), dtype=object, copy=True))
        numpy.ndarray.__setitem__(self, idx, val)


def _has_sym(a) -> bool:
    if isinstance(a, (Sym, SymBool)):
        return True
    if isinstance(a, numpy.ndarray) and a.dtype == object and a.dtype.names is None:
        for x in a.flat:
            if isinstance(x, (Sym, SymBool)):
                return True
    return False


def _truth(x) -> SymBool:
    if isinstance(x, SymBool):
        return x
    if isinstance(x, Sym):
        return x.truth()
    return SymBool(None, bool(x))


def _merge(items, conj: bool):
    """Decide any()/all() of a list of elements with a single fork."""
    cs: List[Any] = []
    tainted = False
    for x in items:
        b = _truth(x)
        if b.t is None:
            if bool(b.c) != conj:
                return not conj  # a concrete True in any / False in all settles it
            continue
        cs.append(b.t)
        tainted = tainted or b.tainted
    if not cs:
        return conj
    t = z3.And(*cs) if conj else z3.Or(*cs)
    return ENGINE.decide(t, tainted=tainted)


class NumpyProxy(types.ModuleType):
    """Forwarding proxy for the ``numpy`` global of numpoly modules."""

    def __init__(self):
        super().__init__("numpy")
        self.__dict__["adversarial_sort"] = True

    def __getattr__(self, name):
        return getattr(numpy, name)

    # S2
    def empty(self, shape, dtype=float, *a, **k):
        r = numpy.empty(shape, dtype, *a, **k)
        if r.dtype == object:
            r = r.view(OArr)
        return r

    def _filled(self, fn, *a, **k):
        r = fn(*a, **k)
        if isinstance(r, numpy.ndarray) and r.dtype == object and r.dtype.names is None:
            symify(r)
        return r

    def zeros(self, *a, **k):
        return self._filled(numpy.zeros, *a, **k)

    def ones(self, *a, **k):
        return self._filled(numpy.ones, *a, **k)

    def zeros_like(self, a, *args, **k):
        if type(a).__name__ == "ndpoly":
            return numpy.zeros_like(a, *args, **k)
        return self._filled(numpy.zeros_like, a, *args, **k)

    def ones_like(self, a, *args, **k):
        if type(a).__name__ == "ndpoly":
            return numpy.ones_like(a, *args, **k)
        return self._filled(numpy.ones_like, a, *args, **k)

    def full(self, *a, **k):
        return self._filled(numpy.full, *a, **k)

    def eye(self, *a, **k):
        return self._filled(numpy.eye, *a, **k)

    # S3: a full reduction of an object array returns the bare element; a plain python number (empty reduction) becomes a Sym
    def _scalar(self, r, a=None):
        if getattr(a, "dtype", None) is not None and a.dtype != object:
            return r  # native arrays: numpy's own result, untouched (numpy.float64 is a float subclass)
        if isinstance(r, (int, float)) and not isinstance(r, (bool, numpy.generic)):
            return Sym.const(r)
        return r

    def sum(self, a, *args, **kw):
        return self._scalar(numpy.sum(a, *args, **kw), a)

    def prod(self, a, *args, **kw):
        return self._scalar(numpy.prod(a, *args, **kw), a)

    def mean(self, a, *args, **kw):
        return self._scalar(numpy.mean(a, *args, **kw), a)

    # S12: isclose / allclose by numpy's documented formula |a - b| <= atol + rtol * |b| for finite object values
    def isclose(self, a, b, rtol=1e-05, atol=1e-08, equal_nan=False):
        if not (_has_sym(a) or _has_sym(b)):
            return numpy.isclose(a, b, rtol=rtol, atol=atol, equal_nan=equal_nan)
        _used("S12:isclose(object)")
        a = numpy.asarray(a, dtype=object)
        b = numpy.asarray(b, dtype=object)
        a, b = numpy.broadcast_arrays(a, b)
        out = numpy.empty(a.shape, dtype=bool)
        for idx in numpy.ndindex(*a.shape):
            x, y = Sym.lift(a[idx]), Sym.lift(b[idx])
            out[idx] = bool(abs(x - y) <= atol + rtol * abs(y))
        return out if out.shape else numpy.bool_(out[()])

    def allclose(self, a, b, rtol=1e-05, atol=1e-08, equal_nan=False):
        if not (_has_sym(a) or _has_sym(b)):
            return numpy.allclose(a, b, rtol=rtol, atol=atol, equal_nan=equal_nan)
        return bool(numpy.all(self.isclose(a, b, rtol=rtol, atol=atol, equal_nan=equal_nan)))

    def common_type(self, *arrays):
        # S11: numpy.common_type refuses object arrays; the symbolic carrier's "common type" is object
        if any(getattr(a, "dtype", None) == object for a in arrays):
            _used("S11:common_type(object)")
            return numpy.object_
        return numpy.common_type(*arrays)

    # S10
    def _anyall(self, conj, a, axis=None, out=None, keepdims=False, **kw):
        real = numpy.all if conj else numpy.any
        if out is not None or kw or not _has_sym(a):
            return real(a, axis=axis, out=out, keepdims=keepdims, **kw) if (out is not None or kw) else real(a, axis=axis, keepdims=keepdims)
        _used("S10:any/all")
        arr = numpy.asarray(a, dtype=object)
        if axis is None:
            r = _merge(list(arr.flat), conj)
            if keepdims:
                return numpy.full((1,) * arr.ndim, r, dtype=bool)
            return numpy.bool_(r)
        axes = (axis,) if isinstance(axis, (int, numpy.integer)) else tuple(axis)
        axes = tuple(ax % arr.ndim for ax in axes)
        keep = [i for i in range(arr.ndim) if i not in axes]
        moved = numpy.transpose(arr, keep + list(axes))
        kshape = tuple(arr.shape[i] for i in keep)
        moved = moved.reshape(kshape + (-1,))
        res = numpy.empty(kshape, dtype=bool)
        for idx in numpy.ndindex(*kshape):
            res[idx] = _merge(list(moved[idx].flat), conj)
        if keepdims:
            shp = [1 if i in axes else arr.shape[i] for i in range(arr.ndim)]
            res = res.reshape(shp)
        return res

    def any(self, a, axis=None, out=None, keepdims=False, **kw):
        return self._anyall(False, a, axis, out, keepdims, **kw)

    def all(self, a, axis=None, out=None, keepdims=False, **kw):
        return self._anyall(True, a, axis, out, keepdims, **kw)

    # S4
    def argsort(self, a, axis=-1, kind=None, order=None, **kw):
        arr = numpy.asarray(a)
        if order is not None or kw or arr.ndim != 1 or not self.__dict__["adversarial_sort"]:
            return numpy.argsort(a, axis=axis, kind=kind, order=order, **kw)
        stable = kind in ("stable", "mergesort")
        if not ENGINE.active:
            if stable or not CONCRETE_ENV["reverse_ties"] or arr.dtype == object:
                return numpy.argsort(a, axis=axis, kind=kind)
            # replay environment: a conforming unstable sort that reverses every run of equal keys
            _used("S4:argsort(reverse-ties replay environment)")
            idx = numpy.argsort(arr, kind="stable")
            out = []
            i = 0
            while i < len(idx):
                j = i
                while j + 1 < len(idx) and arr[idx[j + 1]] == arr[idx[i]]:
                    j += 1
                out.extend(reversed(idx[i : j + 1].tolist()))
                i = j + 1
            return numpy.array(out, dtype=numpy.intp)
        _used("S4:argsort(%s)" % ("stable" if stable else "unstable"))
        key = None
        if arr.dtype != object:
            key = ("argsort", stable, arr.tobytes(), str(arr.dtype))
            hit = ENGINE.path_cache.get(key)
            if hit is not None:
                return hit.copy()
        r = adversarial_argsort(arr, stable)
        if key is not None:
            ENGINE.path_cache[key] = r
        return r.copy()


CONCRETE_ENV = {"reverse_ties": False}


def adversarial_argsort(arr, stable: bool):
    """Any permutation that sorts ``arr`` ascending; ties in solver/fork-chosen order unless
    ``stable``.  Insertion sort whose comparisons are (forking) Sym comparisons; for an
    unstable sort each tie additionally forks on the relative order of the two equal keys."""
    n = len(arr)
    order: List[int] = []
    for i in range(n):
        pos = len(order)
        # find insertion point scanning from the right
        while pos > 0:
            j = order[pos - 1]
            aj, ai = arr[j], arr[i]
            if bool(ai < aj):
                pos -= 1
                continue
            if not stable and bool(ai == aj):
                # tie: a conforming unstable sort may put either first
                if ENGINE.decide(z3.Bool("tie!%d" % ENGINE_next_tie()), tainted=False):
                    pos -= 1
                    continue
            break
        order.insert(pos, i)
    return numpy.array(order, dtype=numpy.intp)


_TIE = [0]


def ENGINE_next_tie() -> int:
    ENGINE.atom_counter += 1
    return ENGINE.atom_counter


PROXY = NumpyProxy()


# ----------------------------------------------------------------------------- S7 havoc
_REAL_NEW = numpoly.ndpoly.__new__
HAVOC = {"enabled": True}


def _havoc_new(cls, *args, **kwargs):
    obj = _REAL_NEW(cls, *args, **kwargs)
    try:
        isobj = obj._dtype == object
    except Exception:
        isobj = False
    if isobj and HAVOC["enabled"] and obj.size:
        vals = numpy.ndarray(shape=obj.shape, dtype=[(k, object) for k in obj.keys], buffer=obj.data)
        for key in obj.keys:
            f = vals[key]
            flat = f.reshape(-1) if f.ndim else f.reshape(1)
            for i in range(flat.size):
                ENGINE.havoc_counter += 1
                flat[i] = Sym.atom("havoc!%d" % ENGINE.havoc_counter)
    return obj


# ----------------------------------------------------------------------------- install
_INSTALLED = {"done": False}


def install(adversarial_sort: bool = True):
    """Install all stubs.  Idempotent."""
    PROXY.__dict__["adversarial_sort"] = adversarial_sort
    if _INSTALLED["done"]:
        return
    numpoly.cset_values = cset_values
    numpoly.cadd_values = cadd_values
    numpoly.cfrom_attributes = cfrom_attributes
    numpoly.cmultiply = cmultiply
    n = 0
    for name, mod in list(sys.modules.items()):
        if name == "numpoly" or name.startswith("numpoly."):
            if isinstance(mod, types.ModuleType) and mod.__dict__.get("numpy") is numpy:
                mod.__dict__["numpy"] = PROXY
                n += 1
    numpoly.ndpoly.__new__ = staticmethod(_havoc_new)
    _INSTALLED["done"] = True
    _INSTALLED["modules_proxied"] = n


def stub_list() -> List[str]:
    return [
        "S1 kernel specs for object dtype (cset/cadd/cfrom_attributes/cmultiply; C byte-key semantics)",
        "S2 numpy.empty object arrays unwrap 0-d object arrays on assignment",
        "S3 Sym duck-types a 0-d numpy scalar",
        "S4 argsort without kind='stable' may order ties arbitrarily (fork)",
        "S7 fresh ndpoly buffers are Havoc atoms",
        "S10 numpy.any/all on object arrays merged into one disjunction per slice",
        "S11 numpy.common_type of object arrays is object",
        "S12 numpy.isclose/allclose on object arrays: |a-b| <= atol + rtol*|b| (numpy's documented formula, finite values)",
    ]
