"""C08 — numpy, numpoly and operator spellings agree; unsupported numpy calls raise (E1 + abstract dispatch).

Negative half: the real ``ndpoly.__array_ufunc__`` / ``__array_function__`` methods are executed with an *abstract*
callable and a *symbolic* method name, and the four registries replaced by abstract dictionaries whose membership is an
uninterpreted predicate decided by the solver.  On every path the call must either be forwarded to a registered
implementation under exactly the documented condition, or raise FeatureNotSupported — for any registry contents, hence for
every other numpy function / ufunc / ufunc method (given numpy's override protocol).

Positive half: the operation catalogues of C01/C07/C09/C10 are executed under both spellings (``numpoly.f(poly, ...)`` and
``numpy.f(poly, ...)`` / operator / method / ufunc.reduce) on the same symbolic operands in the same path; results must have
the same type, shape, names and denote the same polynomials."""
from __future__ import annotations

import importlib
import operator
import random
import sys
import time
from typing import Any, Dict, List

import numpy
import z3

from .. import harness as H
from .. import model as M
from .. import structures as S

PROP = "C08"
MOD = "nv.checks.c08"
METHODS = ["__call__", "reduce", "accumulate", "outer", "at", "reduceat", "<other>"]


# ----------------------------------------------------------------------------- abstract dispatch
class SymMethod(str):
    """A ufunc method name that is only ever compared with constants: each comparison forks."""

    def __new__(cls):
        return str.__new__(cls, "<symbolic method>")

    def _is(self, other: str) -> bool:
        from ..engine import ENGINE

        m = z3.Int("method")
        idx = METHODS.index(other) if other in METHODS else len(METHODS) - 1
        if other not in METHODS:
            return False
        return ENGINE.decide(m == idx)

    def __eq__(self, o):  # type: ignore
        return self._is(o) if isinstance(o, str) else NotImplemented

    def __ne__(self, o):  # type: ignore
        return not self._is(o) if isinstance(o, str) else NotImplemented

    __hash__ = str.__hash__


class AbsCallable:
    def __init__(self, name):
        self.__name__ = name
        self.name = name

    def __repr__(self):
        return "<abstract %s>" % self.name

    def __hash__(self):
        return hash(self.name)

    def __eq__(self, o):
        return self is o


class AbsDict:
    """Registry with uninterpreted membership: `k in d` is the solver-decided predicate member_<d>(k)."""

    def __init__(self, name, log):
        self.name = name
        self.log = log

    def _member(self, key) -> bool:
        from ..engine import ENGINE

        return ENGINE.decide(z3.Bool("member_%s(%s)" % (self.name, getattr(key, "name", repr(key)))))

    def __contains__(self, key):
        return self._member(key)

    def __getitem__(self, key):
        if not self._member(key):
            raise KeyError(key)
        if self.name in ("UFUNC_COLLECTION", "FUNCTION_COLLECTION"):
            def impl(*a, **k):
                self.log.append(("forwarded", self.name, getattr(key, "name", repr(key))))
                return "RESULT"

            return impl
        return AbsCallable("%s[%s]" % (self.name, getattr(key, "name", key)))

    def get(self, key, default=None):
        return self[key] if self._member(key) else default


def body_dispatch(ctx: H.BaseCtx):
    import numpoly
    import numpoly.baseclass as bc
    from ..engine import ENGINE

    case = ctx.case
    if not ctx.symbolic:
        return native_dispatch(ctx)
    log: List[Any] = []
    saved = (bc.REDUCE_MAPPINGS, bc.ACCUMULATE_MAPPINGS, numpoly.UFUNC_COLLECTION, numpoly.FUNCTION_COLLECTION)
    bc.REDUCE_MAPPINGS = AbsDict("REDUCE_MAPPINGS", log)
    bc.ACCUMULATE_MAPPINGS = AbsDict("ACCUMULATE_MAPPINGS", log)
    numpoly.UFUNC_COLLECTION = AbsDict("UFUNC_COLLECTION", log)
    numpoly.FUNCTION_COLLECTION = AbsDict("FUNCTION_COLLECTION", log)
    try:
        poly = numpoly.polynomial_from_attributes([[1]], [numpy.asarray(1)], names=("q0",))
        f = AbsCallable("f")
        m = z3.Int("method")
        ENGINE.assume(z3.And(m >= 0, m < len(METHODS)))
        exc = None
        res = None
        try:
            if case["which"] == "ufunc":
                res = numpoly.ndpoly.__array_ufunc__(poly, f, SymMethod(), poly)
            else:
                res = numpoly.ndpoly.__array_function__(poly, f, (numpoly.ndpoly,), (poly,), {})
        except Exception as e:
            exc = e
        forwarded = [l for l in log if l[0] == "forwarded"]
        if exc is None:
            if not forwarded or res != "RESULT":
                ctx.fail("dispatch", "%s returned %r without forwarding to a registered implementation" % (case["which"], res))
        elif not isinstance(exc, numpoly.FeatureNotSupported):
            # which abstract situation is this?  describe it from the path condition
            pc = [str(c) for (c, _, _) in ENGINE.trace]
            ctx.fail("exception", "%s dispatch raised %s instead of FeatureNotSupported on the path %s" % (case["which"], type(exc).__name__, pc[-4:]))
        elif forwarded:
            ctx.fail("dispatch", "forwarded and raised")
    finally:
        bc.REDUCE_MAPPINGS, bc.ACCUMULATE_MAPPINGS, numpoly.UFUNC_COLLECTION, numpoly.FUNCTION_COLLECTION = saved


def native_dispatch(ctx: H.BaseCtx):
    """Native replay of a dispatch counterexample: real numpy calls that fall into the abstract situation."""
    import numpoly

    q0 = numpoly.variable()
    p = numpoly.polynomial([q0, 2 * q0, 3])
    probes = [
        ("numpy.subtract.reduce(poly)", lambda: numpy.subtract.reduce(p)),
        ("numpy.subtract.accumulate(poly)", lambda: numpy.subtract.accumulate(p)),
        ("numpy.maximum.accumulate(poly)", lambda: numpy.maximum.accumulate(p)),
        ("numpy.add.outer(poly, poly)", lambda: numpy.add.outer(p, p)),
        ("numpy.add.at(poly, [0], 1)", lambda: numpy.add.at(p, [0], 1)),
        ("numpy.add.reduceat(poly, [0, 1])", lambda: numpy.add.reduceat(p, [0, 1])),
        ("numpy.sin(poly)", lambda: numpy.sin(p)),
        ("numpy.multiply.accumulate(poly)", lambda: numpy.multiply.accumulate(p)),
        ("numpy.fft.fft(poly)", lambda: numpy.fft.fft(p)),
        ("numpy.sort(poly)", lambda: numpy.sort(p)),
        ("numpy.linalg.inv(poly)", lambda: numpy.linalg.inv(numpoly.polynomial([[q0, 1], [2, q0]]))),
        ("numpy.cumprod(poly)", lambda: numpy.cumprod(p)),
    ]
    for label, f in probes:
        try:
            r = f()
            ctx.fail("dispatch", "%s returned %s instead of raising FeatureNotSupported" % (label, type(r).__name__))
        except numpoly.FeatureNotSupported:
            pass
        except Exception as e:
            ctx.fail("exception", "%s raised %s instead of FeatureNotSupported: %s" % (label, type(e).__name__, str(e)[:60]))


# ----------------------------------------------------------------------------- spellings
def _same(ctx, r1, r2, what):
    import numpoly

    if isinstance(r1, (list, tuple)) or isinstance(r2, (list, tuple)):
        if not isinstance(r1, (list, tuple)) or not isinstance(r2, (list, tuple)) or len(r1) != len(r2):
            ctx.fail("spelling", "%s: one spelling returns %s, the other %s" % (what, type(r1).__name__, type(r2).__name__))
            return
        for i, (a, b) in enumerate(zip(r1, r2)):
            _same(ctx, a, b, "%s[%d]" % (what, i))
        return
    p1, p2 = isinstance(r1, numpoly.ndpoly), isinstance(r2, numpoly.ndpoly)
    if p1 != p2:
        ctx.fail("spelling", "%s: one spelling returns %s, the other %s" % (what, type(r1).__name__, type(r2).__name__))
        return
    try:
        m1 = M.to_model(r1)
    except Exception as e:
        ctx.fail("malformed", "%s: %s" % (what, e))
        return
    ctx.expect_model(r2, m1, what + " (numpy spelling vs numpoly spelling)")
    if p1 and tuple(r1.names) != tuple(r2.names):
        ctx.fail("spelling", "%s: names %s vs %s" % (what, tuple(r1.names), tuple(r2.names)))
    if p1 and r1.dtype != r2.dtype:
        ctx.fail("spelling", "%s: dtype %s vs %s" % (what, r1.dtype, r2.dtype))
    if not p1 and isinstance(r1, numpy.ndarray) and isinstance(r2, numpy.ndarray) and r1.dtype != r2.dtype:
        ctx.fail("spelling", "%s: result dtype %s vs %s" % (what, r1.dtype, r2.dtype))


SKIP_NUMPY_SPELLING = {"where1", "full", "full_like", "choose", "flat", "iter", "getitem", "T", "ravel", "flatten", "reshape_method", "diagonal_method", "det", "linalg.det",
                       "sum_method", "prod_method", "cumsum_method", "mean_method", "add.reduce", "multiply.reduce", "add.accumulate", "matmul_op"}


def body_spelling(ctx: H.BaseCtx):
    import numpoly

    case = ctx.case
    src = case["src"]
    ops = [ctx.build(s) for s in case["operands"]]
    if src in ("c09", "c10"):
        mod = importlib.import_module("nv.checks." + src)
        name, par = case["fn"], case.get("par", {})
        try:
            r1 = mod.apply(name, par, ops, False)
        except Exception as e:
            e1 = e
            r1 = None
        else:
            e1 = None
        extra = []
        if name not in SKIP_NUMPY_SPELLING:
            extra.append(("numpy." + name, lambda: mod.apply(name, par, ops, True)))
        a = ops[0]
        # method / ufunc-method spellings of the same call
        if src == "c10" and name in ("sum", "prod", "cumsum", "mean"):
            kw = {"axis": par.get("axis") if not isinstance(par.get("axis"), list) else tuple(par["axis"])}
            if name in ("sum", "prod") and par.get("keepdims"):
                kw["keepdims"] = True
            extra.append(("poly.%s()" % name, lambda: getattr(a, name)(**kw)))
            if name == "sum" and not isinstance(kw["axis"], tuple):
                extra.append(("numpy.add.reduce", lambda: numpy.add.reduce(a, axis=kw["axis"], keepdims=bool(kw.get("keepdims", False))) if kw["axis"] is not None else numpy.add.reduce(a, axis=None, keepdims=bool(kw.get("keepdims", False)))))
            if name == "prod" and isinstance(kw["axis"], int) and not kw.get("keepdims"):
                extra.append(("numpy.multiply.reduce", lambda: numpy.multiply.reduce(a, axis=kw["axis"])))
            if name == "cumsum" and isinstance(kw["axis"], int):
                extra.append(("numpy.add.accumulate", lambda: numpy.add.accumulate(a, axis=kw["axis"])))
        if src == "c09" and name in ("reshape", "transpose", "repeat", "diagonal"):
            if name == "reshape" and isinstance(par["shape"], list):
                extra.append(("poly.reshape()", lambda: a.reshape(tuple(par["shape"]), order=par.get("order", "C"))))
            if name == "transpose":
                extra.append(("poly.transpose()", lambda: a.transpose(par.get("axes")) if par.get("axes") is not None else a.transpose()))
            if name == "diagonal":
                extra.append(("poly.diagonal()", lambda: a.diagonal(par["offset"], par["axis1"], par["axis2"])))
        if src == "c10" and name == "matmul":
            extra.append(("@", lambda: ops[0] @ ops[1]))
        for label, f in extra:
            try:
                r2 = f()
            except Exception as e:
                if e1 is None:
                    ctx.fail("spelling", "%s raises %s: %s while numpoly.%s returns" % (label, type(e).__name__, str(e)[:60], name))
                elif type(e) is not type(e1):
                    ctx.fail("spelling", "%s raises %s, numpoly.%s raises %s" % (label, type(e).__name__, name, type(e1).__name__))
                continue
            if e1 is not None:
                ctx.fail("spelling", "numpoly.%s raises %s: %s while %s returns" % (name, type(e1).__name__, str(e1)[:60], label))
                continue
            _same(ctx, r1, r2, label)
        return
    if src == "literal":
        # python-number partners (incl. the neutral elements 0 and 1) under every spelling, against the exact model
        a = ops[0]
        ma = ctx.model(case["operands"][0])
        fl = lambda k: M.amap(lambda e: M.MP({m: c // k for m, c in e.terms.items()}), ma)
        groups = []
        for k in case["ints"]:
            groups.append(("floor_divide by %d" % k, fl(k), [("numpoly.floor_divide", lambda k=k: numpoly.floor_divide(a, k)), ("numpy.floor_divide", lambda k=k: numpy.floor_divide(a, k)), ("operator //", lambda k=k: a // k)]))
            groups.append(("true_divide by %d" % k, M.amap(lambda e, k=k: e / k, ma), [("numpoly.true_divide", lambda k=k: numpoly.true_divide(a, k)), ("numpy.true_divide", lambda k=k: numpy.true_divide(a, k))]))
            groups.append(("poly / %d" % k, M.amap(lambda e, k=k: e / k, ma), [("numpoly.poly_divide", lambda k=k: numpoly.poly_divide(a, k)), ("operator /", lambda k=k: a / k)]))
        for k in (0, 1, 2):
            groups.append(("add %d" % k, M.amap(lambda e, k=k: e + k, ma), [("numpoly.add", lambda k=k: numpoly.add(a, k)), ("numpy.add", lambda k=k: numpy.add(a, k)), ("operator +", lambda k=k: a + k), ("reflected +", lambda k=k: k + a)]))
            groups.append(("subtract %d" % k, M.amap(lambda e, k=k: e - k, ma), [("numpoly.subtract", lambda k=k: numpoly.subtract(a, k)), ("numpy.subtract", lambda k=k: numpy.subtract(a, k)), ("operator -", lambda k=k: a - k)]))
            groups.append(("%d subtract" % k, M.amap(lambda e, k=k: k - e, ma), [("numpoly.subtract", lambda k=k: numpoly.subtract(k, a)), ("numpy.subtract", lambda k=k: numpy.subtract(k, a)), ("reflected -", lambda k=k: k - a)]))
            groups.append(("%d add" % k, M.amap(lambda e, k=k: e + k, ma), [("numpy.add reflected", lambda k=k: numpy.add(k, a)), ("numpy.multiply reflected by 1", lambda k=k: numpy.multiply(1, a) + k)]))
            groups.append(("multiply %d" % k, M.amap(lambda e, k=k: e * k, ma), [("numpoly.multiply", lambda k=k: numpoly.multiply(a, k)), ("numpy.multiply", lambda k=k: numpy.multiply(a, k)), ("operator *", lambda k=k: a * k), ("reflected *", lambda k=k: k * a)]))
            groups.append(("power %d" % k, M.amap(lambda e, k=k: e ** k, ma), [("numpoly.power", lambda k=k: numpoly.power(a, k)), ("numpy.power", lambda k=k: numpy.power(a, k)), ("operator **", lambda k=k: a ** k)]))
        for label, exp, spellings in groups:
            for sp, f in spellings:
                try:
                    r = f()
                except Exception as e:
                    ctx.unexpected_exception(e, "%s (%s)" % (label, sp))
                    continue
                if not isinstance(r, numpoly.ndpoly):
                    ctx.fail("spelling", "%s (%s) returned %s" % (label, sp, type(r).__name__))
                ctx.expect_model(r, exp, "%s via %s" % (label, sp))
        if not ctx.symbolic and H.NATIVE_RUN_INDEX == 0:
            # (value-independent: once per case)  native only: every *carrier type* a number or array-like partner can arrive in (the protocol methods see these types)
            class _ArrayLike:
                def __array__(self, dtype=None, copy=None):
                    return numpy.asarray([2, 3] if a.shape else 2, dtype=dtype)

            seq = [1, 2] if a.shape and a.shape[-1] == 2 else None
            partners = [("bool", True), ("numpy.bool_", numpy.True_), ("numpy.int8", numpy.int8(2)), ("numpy.uint16", numpy.uint16(2)), ("numpy.float32", numpy.float32(2)),
                        ("numpy.float64", numpy.float64(2)), ("0-d array", numpy.array(2)), ("0-d bool array", numpy.array(True)), ("object with __array__", _ArrayLike())]
            if seq:
                partners += [("list", list(seq)), ("tuple", tuple(seq)), ("range", range(1, 3)), ("bool array", numpy.array([True, False]))]
            fns = [("add", operator.add), ("subtract", operator.sub), ("multiply", operator.mul), ("equal", operator.eq), ("less", operator.lt), ("maximum", None), ("logical_and", None)]
            for pname, k in partners:
                for fname, op_ in fns:
                    try:
                        ref = getattr(numpoly, fname)(a, k)
                    except Exception:
                        continue  # what numpoly itself refuses is not a spelling question
                    spell = [("numpy.%s(p, %s)" % (fname, pname), lambda: getattr(numpy, fname)(a, k))]
                    if op_ is not None:
                        spell.append(("operator %s with %s" % (fname, pname), lambda: op_(a, k)))
                    for label, f in spell:
                        try:
                            r2 = f()
                        except Exception as e:
                            ctx.fail("spelling", "%s raises %s: %s while numpoly.%s returns" % (label, type(e).__name__, str(e)[:60], fname))
                            continue
                        _same(ctx, ref, r2, label)
            # special values (nan, inf, -0.0, magnitudes next to overflow): every spelling of one operation must still agree,
            # bit for bit up to nan
            from .. import special as SP

            q0, q1 = numpoly.variable(2)
            with numpy.errstate(all="ignore"):
                for k, pair in enumerate(SP.PAIRS if case.get("special_values") else []):
                    lo, hi = pair
                    polys = [lo + hi * q0, numpoly.polynomial([lo, hi * q0]), hi * q0 * q1 + lo * q1 + 0.25, numpoly.polynomial([lo * q0 + hi, q1]),
                             0.1 + 0.1 * q0 + 0.7 * q0 ** 2, lo * 1e-154 + 1.1e154 * q0 - 1.2e154 * q0 ** 2, 0.3 + q0 / 3.0 + 2.7 * q0 ** 2 + 0.1 * q1]
                    for pi, sp in enumerate(polys):
                        groups = {
                            "square": [("numpoly.power(p, 2)", lambda: numpoly.power(sp, 2)), ("p ** 2", lambda: sp ** 2), ("numpy.power(p, 2)", lambda: numpy.power(sp, 2)),
                                       ("numpy.square(p)", lambda: numpy.square(sp)), ("numpoly.square(p)", lambda: numpoly.square(sp)), ("p * p", lambda: sp * sp), ("numpy.multiply(p, p)", lambda: numpy.multiply(sp, sp))],
                            "double": [("numpoly.add(p, p)", lambda: numpoly.add(sp, sp)), ("p + p", lambda: sp + sp), ("numpy.add(p, p)", lambda: numpy.add(sp, sp))],
                            "negate": [("numpoly.negative(p)", lambda: numpoly.negative(sp)), ("-p", lambda: -sp), ("numpy.negative(p)", lambda: numpy.negative(sp))],
                            "scale": [("numpoly.multiply(p, 0.5)", lambda: numpoly.multiply(sp, 0.5)), ("p * 0.5", lambda: sp * 0.5), ("0.5 * p", lambda: 0.5 * sp), ("numpy.multiply(0.5, p)", lambda: numpy.multiply(0.5, sp))],
                        }
                        for gname, spellings in groups.items():
                            ref = None
                            for label, f in spellings:
                                try:
                                    r = f()
                                except Exception as e:
                                    ctx.fail("spelling", "%s raises %s on coefficients %s" % (label, type(e).__name__, pair))
                                    continue
                                t = SP.terms(r)
                                if ref is None:
                                    ref, ref_label = t, label
                                    continue
                                keys = set(ref) | set(t)
                                for m in keys:
                                    z = numpy.zeros(r.shape)
                                    if not SP.same(ref.get(m, z), t.get(m, z)):
                                        ctx.fail("spelling", "%s and %s differ on the polynomial %s: term %s is %s vs %s" % (ref_label, label, sp, m, numpy.asarray(ref.get(m, z)).tolist(), numpy.asarray(t.get(m, z)).tolist()))
                                        break
        return
    # binary operators / comparisons: operator vs numpy.f vs numpoly.f
    a, b = ops[0], ops[1]
    table = {
        "add": (operator.add, numpy.add, numpoly.add),
        "sub": (operator.sub, numpy.subtract, numpoly.subtract),
        "mul": (operator.mul, numpy.multiply, numpoly.multiply),
        "lt": (operator.lt, numpy.less, numpoly.less),
        "le": (operator.le, numpy.less_equal, numpoly.less_equal),
        "gt": (operator.gt, numpy.greater, numpoly.greater),
        "ge": (operator.ge, numpy.greater_equal, numpoly.greater_equal),
        "eq": (operator.eq, numpy.equal, numpoly.equal),
        "ne": (operator.ne, numpy.not_equal, numpoly.not_equal),
        "maximum": (None, numpy.maximum, numpoly.maximum),
        "minimum": (None, numpy.minimum, numpoly.minimum),
        "logical_and": (None, numpy.logical_and, numpoly.logical_and),
        "logical_or": (None, numpy.logical_or, numpoly.logical_or),
    }
    for key in case["binops"]:
        op_, np_, npo_ = table[key]
        try:
            r1 = npo_(a, b)
        except Exception as e:
            ctx.unexpected_exception(e, "numpoly." + key)
            continue
        for label, f in (("numpy." + np_.__name__, lambda: np_(a, b)), ("operator " + key, (lambda: op_(a, b)) if op_ else None)):
            if f is None:
                continue
            try:
                r2 = f()
            except Exception as e:
                ctx.fail("spelling", "%s raises %s: %s while numpoly.%s returns" % (label, type(e).__name__, str(e)[:60], key))
                continue
            _same(ctx, r1, r2, label)
    # output targets: out= given to the numpy spelling and to the numpoly spelling, and the in-place operator, leave the same
    # result in the target and return the same thing (what numpoly's own function refuses is not a spelling question)
    iops = {"add": operator.iadd, "sub": operator.isub, "mul": operator.imul}
    for key in case["binops"]:
        op_, np_, npo_ = table[key]
        if key in ("maximum", "minimum"):
            continue
        try:
            r1 = npo_(a, b)
            if isinstance(r1, numpoly.ndpoly):
                mk = lambda: numpoly.align_polynomials(r1, a, b)[0].copy()  # room for every term of the operands and of the result
            elif isinstance(r1, numpy.ndarray):
                mk = lambda: numpy.zeros(r1.shape, dtype=bool)
            else:
                continue
            o1 = mk()
            d = npo_(a, b, out=o1)
        except Exception:
            continue
        o2 = mk()
        try:
            n = np_(a, b, out=o2)
        except Exception as e:
            ctx.fail("spelling", "numpy.%s(.., out=) raises %s: %s while numpoly.%s(.., out=) returns" % (np_.__name__, type(e).__name__, str(e)[:60], np_.__name__))
            continue
        _same(ctx, d, n, "numpy.%s with out=" % np_.__name__)
        _same(ctx, o1, o2, "numpy.%s with out=: the target afterwards" % np_.__name__)
        if (d is o1) != (n is o2):
            ctx.fail("spelling", "numpy.%s with out=: one spelling returns the target, the other does not" % np_.__name__)
        if key in iops and isinstance(r1, numpoly.ndpoly) and tuple(r1.shape) == tuple(getattr(a, "shape", ())):
            # a op= b  ==  op(a, b, out=a) on a left operand that has room for the result's terms
            try:
                x1 = numpoly.align_polynomials(a, r1, b)[0].copy()
                x2 = x1.copy()
                d = npo_(x1, b, out=x1)
            except Exception:
                continue
            try:
                x3 = iops[key](x2, b)
            except Exception as e:
                ctx.fail("spelling", "in-place operator %s raises %s: %s while numpoly.%s(a, b, out=a) returns" % (key, type(e).__name__, str(e)[:60], np_.__name__))
                continue
            _same(ctx, d, x3, "in-place operator %s" % key)
            _same(ctx, x1, x2, "in-place operator %s: the left operand afterwards" % key)
            # the same on a left operand as it is (it may have no field for a term of the result): refused, or the value of a op b
            # (only where the operand's coefficient type is the result's: writing into a narrower type is out= business, not a spelling)
            if isinstance(a, numpoly.ndpoly) and a.dtype == r1.dtype:
                try:
                    x4 = iops[key](a.copy(), b)
                except Exception:
                    continue
                ctx.expect_model(x4, M.to_model(r1), "in-place operator %s on the operand as it is (returned instead of refusing)" % key)
    for key in case.get("unops", []):
        np_, npo_ = getattr(numpy, key), getattr(numpoly, key)
        try:
            r1 = npo_(a)
            o1 = numpoly.align_polynomials(r1, a)[0].copy()
            o2 = o1.copy()
            d = npo_(a, out=o1)
        except Exception:
            continue
        try:
            n = np_(a, out=o2)
        except Exception as e:
            ctx.fail("spelling", "numpy.%s(.., out=) raises %s: %s while numpoly.%s(.., out=) returns" % (key, type(e).__name__, str(e)[:60], key))
            continue
        _same(ctx, d, n, "numpy.%s with out=" % key)
        _same(ctx, o1, o2, "numpy.%s with out=: the target afterwards" % key)
    # where= masks that are all True and larger than the operands (the mask takes part in broadcasting): both spellings, same shape
    if not ctx.symbolic:
        shp = tuple(numpy.broadcast_shapes(getattr(a, "shape", ()), getattr(b, "shape", ())))
        for mask in (numpy.ones((2,) + shp, dtype=bool), numpy.ones((3, 1) + shp, dtype=bool)):
            for key in ("add", "sub"):
                op_, np_, npo_ = table[key]
                try:
                    with numpy.errstate(all="ignore"):
                        d = npo_(a, b, where=mask)
                except Exception:
                    continue
                try:
                    with numpy.errstate(all="ignore"):
                        n_ = np_(a, b, where=mask)
                except Exception as e:
                    ctx.fail("spelling", "numpy.%s(.., where=larger all-True mask) raises %s while numpoly.%s returns" % (np_.__name__, type(e).__name__, np_.__name__))
                    continue
                if tuple(d.shape) != tuple(n_.shape):
                    ctx.fail("spelling", "numpy.%s(.., where=all-True mask of shape %s): shape %s, numpoly.%s gives %s" % (np_.__name__, mask.shape, tuple(n_.shape), np_.__name__, tuple(d.shape)))
                else:
                    _same(ctx, d, n_, "numpy.%s with where= an all-True mask larger than the operands" % np_.__name__)
    # the same object on both sides (identity must not short-cut anything)
    for key in ("eq", "ne", "le", "add", "sub", "mul"):
        op_, np_, npo_ = table[key]
        try:
            _same(ctx, npo_(a, a), op_(a, a), "operator %s with the same object on both sides" % key)
            _same(ctx, npo_(a, a), np_(a, a), "numpy.%s with the same object on both sides" % np_.__name__)
        except Exception as e:
            ctx.unexpected_exception(e, key + " (same object)")
    if not ctx.symbolic:
        # native only: NaN coefficients (not representable symbolically) under every spelling of == / !=
        q0 = numpoly.variable()
        pn = numpoly.polynomial([numpy.nan * q0 + 1, 2.0 * q0, 3.0])
        for key in ("eq", "ne"):
            op_, np_, npo_ = table[key]
            ref = numpy.asarray(npo_(pn, pn.copy())).tolist()
            for label, val in (("operator", op_(pn, pn)), ("numpy", np_(pn, pn)), ("numpoly", npo_(pn, pn))):
                if numpy.asarray(val).tolist() != ref:
                    ctx.fail("spelling", "%s %s on a polynomial with a NaN coefficient (same object) gives %s, the function on a copy gives %s" % (label, key, numpy.asarray(val).tolist(), ref))
    # unary
    for key in case.get("unops", []):
        np_ = getattr(numpy, key)
        npo_ = getattr(numpoly, key)
        try:
            r1 = npo_(a)
            r2 = np_(a)
        except Exception as e:
            ctx.unexpected_exception(e, key)
            continue
        _same(ctx, r1, r2, "numpy." + key)
        if key == "negative":
            _same(ctx, r1, -a, "operator -")
        if key == "positive":
            _same(ctx, r1, +a, "operator +")
        if key == "absolute":
            _same(ctx, r1, abs(a), "abs()")
        if key == "square":
            _same(ctx, r1, a ** 2, "**2")


def body(ctx):
    return body_dispatch(ctx) if ctx.case.get("part") == "N" else body_spelling(ctx)


def body_for(case):
    return body


def run_case(case: Dict) -> Dict:
    if case.get("part") == "N":
        lim = case.get("limits", {})
        return H.explore_case(case, body, [], max_paths=200, time_budget=30.0, int_atoms=True)
    return H.simple_run_case(case, body, case["operands"])


def gen_cases(tier: str, seed: int) -> List[Dict]:
    rng = random.Random(8000 + seed)
    quick = tier == "quick"
    lim = H.limits(tier, quick=(400, 20.0), thorough=(4000, 120.0))
    cases: List[Dict] = [
        {"id": "C08-N-array_ufunc", "op": "__array_ufunc__", "part": "N", "which": "ufunc"},
        {"id": "C08-N-array_function", "op": "__array_function__", "part": "N", "which": "function"},
    ]
    for src in ("c09", "c10"):
        mod = importlib.import_module("nv.checks." + src)
        # (the native special-value cases have their own driver; dtype= is a keyword of one spelling only)
        cs = [c for c in mod.gen_cases(tier, seed) if c["fn"] != "special" and not (c.get("par") or {}).get("dtype")]
        byfn: Dict[str, List[Dict]] = {}
        for c in cs:
            byfn.setdefault(c["fn"], []).append(c)
        for fn, lst in sorted(byfn.items()):
            rng.shuffle(lst)
            for c in lst[: (3 if quick else 12)]:
                c = dict(c)
                c["src"] = src
                c["id"] = "C08<" + c["id"]
                c["limits"] = lim
                cases.append(c)
    n = 0
    shapes = [((), ()), ((2,), ()), ((2,), (2,)), ((1, 2), (2, 1))]
    namesets = [(("q0",), ("q0",)), (("q0", "q1"), ("q1",)), (("q2", "q10"), ("q0",)), (("q0",), ("q0", "q1")), (("q1",), ("q0", "q1"))]
    for _ in range(2 if quick else 8):
        for s1, s2 in shapes:
            n1, n2 = rng.choice(namesets)
            e1 = S.exps_for(len(n1), 2, rng, 2, include_const=True)
            e2 = S.exps_for(len(n2), 2, rng, 2)
            a = S.make_poly_spec("a", n1, e1, s1, rng, 2, mode=rng.choice(["raw", "clean"]))
            b = S.make_poly_spec("b", n2, e2, s2, rng, 2, mode="raw", share_from=S.spec_atoms(a) or None)
            n += 1
            cases.append({"id": "C08-%03d-binops" % n, "op": "binops", "src": "ops", "operands": [a, b], "binops": ["add", "sub", "mul", "lt", "le", "gt", "ge", "eq", "ne", "maximum", "minimum", "logical_and", "logical_or"],
                          "unops": ["negative", "positive", "absolute", "square"], "limits": lim})
    for shape in [(), (2,)]:
        for names, exps in [(("q0",), [[0], [1]]), (("q0", "q1"), [[0, 0], [1, 1], [0, 2]])]:
            n += 1
            cases.append({"id": "C08-%03d-literal" % n, "op": "literal", "src": "literal", "operands": [S.make_poly_spec("a", names, exps, shape, rng, 2, zero_prob=0.0, literal_prob=0.3, mode="raw")],
                          "ints": [1, 2] if quick else [1, 2, -3], "special_values": shape == () and len(names) == 1, "limits": lim})
    # constants that store all-zero non-constant terms ahead of the constant term (what take / slicing / alignment leave behind)
    for names, exps in [(("q0",), [[1], [0]]), (("q0", "q1"), [[0, 1], [1, 0], [0, 0]]), (("q2", "q10"), [[1, 1], [0, 0]])]:
        for shape in [(2,), ()]:
            sp = S.make_poly_spec("a", names, exps, shape, rng, 2, zero_prob=0.0, literal_prob=0.3, mode="raw")
            sp.pop("pre", None)
            order = [sp["exps"].index(e) for e in exps]
            sp["exps"] = [list(e) for e in exps]
            sp["slots"] = [sp["slots"][i] for i in order]
            for i, e in enumerate(exps):
                if any(e):
                    sp["slots"][i] = [0] * len(sp["slots"][i])
            n += 1
            cases.append({"id": "C08-%03d-literal-untidy-constant" % n, "op": "literal", "src": "literal", "operands": [sp], "ints": [1, 2], "special_values": False, "limits": lim})
    return cases


def main(argv=None) -> int:
    return H.simple_main(
        PROP, MOD, gen_cases,
        rule="one case = (abstract dispatch of one override method) | (function, arguments, operand structures) executed under every spelling in one path; non-trivial = >= 2 feasible paths",
        bounds={"negative_half": "__array_ufunc__ / __array_function__ with a symbolic method name (7 classes), an abstract callable and abstract registries (uninterpreted membership): all paths",
                "positive_half": "3 (quick) / 12 (thorough) argument sets per function of the C09/C10 catalogues (about 55 registered functions) + operators / comparisons / logical / unary ufuncs; "
                "spellings: numpoly.f, numpy.f, operator, ndarray method, ufunc.reduce/accumulate",
                "not_encodable": "registry entries that only run on native floats or are not value-level (around, ceil, floor, rint, round, isclose, allclose, isfinite, savetxt, roots, apply_along_axis, "
                "apply_over_axes, common_type, result_type, copyto, ones/zeros(_like), array_repr/array_str (C16), count_nonzero, nonzero, divide/remainder/divmod (C05/C11)); coefficient dtype agreement "
                "beyond the object carrier",
                "outside": "numpy's own routing of calls to the override protocol (trusted)"},
        functions=["ndpoly.__array_ufunc__", "ndpoly.__array_function__", "numpoly.dispatch registries", "every function of the C09/C10 catalogues under both spellings", "arithmetic / comparison / logical ufuncs"],
        assumptions=["numpy's __array_ufunc__/__array_function__ override protocol routes every call involving an ndpoly to the two methods analysed"],
        argv=argv,
    )


if __name__ == "__main__":
    sys.exit(main())
