"""C20 — monomials are never confused, whatever the exponent size (E2: K2/K3/K4 + E1 ladder).

K3  key codec: the encode/decode expressions of baseclass.py / polynomial.py are located in the source AST, their constants
    (KEY_OFFSET, dtype names) read from it, and evaluated over 32-bit bit-vectors with numpy's string-view semantics
    axiomatised; z3 proves decode(encode(e)) == e and injectivity for every e < 2**31 and position (D <= 3).  The axioms
    are validated on every run against real numpy on boundary code points.
K2  product keys: the guard in multiply.py that selects the byte-oriented kernel is located in the AST and translated to
    z3; the kernel's key construction (sprintf "%c" -> low byte, UTF-8 decode) is read from cmultiply.pyx; z3 proves that
    whenever the guard admits a product, every key byte is ASCII and equals the true key character (D <= 2, 2x2 rows, all
    32-bit exponents), i.e. the kernel is never used where it can raise or alias; otherwise a concrete exponent pair.
K4  text header: template and regex are read from savetxt.py / loadtxt.py; z3's string theory decides that whenever the
    regex matches a written header the recovered key list equals the written one (<= 2 keys, D <= 2, all key characters).
E1  ladder: construction -> raw view -> back, alignment, * and **, derivative, evaluation, pickling on a ladder of concrete
    exponents derived from the boundaries above (around 69/128, 197/256, 55 000) with *symbolic coefficients*."""
from __future__ import annotations

import ast
import random
import re
import sys
import time
from fractions import Fraction
from typing import Any, Dict, List, Optional, Tuple

import numpy
import z3

from .. import harness as H
from .. import model as M
from .. import structures as S
from ..common import check_invariants

PROP = "C20"
MOD = "nv.checks.c20"
import os

REPO = os.environ.get("NV_REPO", "/repo") + "/numpoly"


# ----------------------------------------------------------------------------- source extraction
def _src(rel):
    return open("%s/%s" % (REPO, rel)).read()


def extract_offset() -> int:
    tree = ast.parse(_src("baseclass.py"))
    for node in ast.walk(tree):
        if isinstance(node, ast.AnnAssign) and isinstance(node.target, ast.Name) and node.target.id == "KEY_OFFSET":
            return int(ast.literal_eval(node.value))
        if isinstance(node, ast.Assign) and any(isinstance(t, ast.Name) and t.id == "KEY_OFFSET" for t in node.targets):
            return int(ast.literal_eval(node.value))
    raise LookupError("KEY_OFFSET")


def extract_codec_shapes() -> Dict[str, str]:
    """The three key expressions must have the recognised shape (else the codec part is inconclusive)."""
    b = _src("baseclass.py")
    p = _src("construct/polynomial.py")
    found = {}
    m = re.search(r"keys = \(exponents \+ cls\.KEY_OFFSET\)\.flatten\(\)\s*\n\s*keys = keys\.view\(f\"U\{exponents\.shape\[-1\]\}\"\)", b)
    found["encode"] = m.group(0) if m else ""
    m = re.search(r"exponents = self\.keys\.astype\(f\"U\{len\(self\.names\)\}\"\)\s*\n\s*exponents = exponents\.view\(numpy\.uint32\) - self\.KEY_OFFSET", b)
    found["decode"] = m.group(0) if m else ""
    m = re.search(r"exponents = keys\.view\(numpy\.uint32\) - numpoly\.ndpoly\.KEY_OFFSET", p)
    found["import"] = m.group(0) if m else ""
    m = re.search(r"exponents = numpy\.array\(exponents, dtype=numpy\.uint32\)", b)
    found["uint32"] = m.group(0) if m else ""
    return found


def extract_guard():
    """Locate `single_byte_keys = <expr>` (or any Compare guarding the cmultiply call) in multiply.py -> z3 builder."""
    src = _src("array_function/multiply.py")
    tree = ast.parse(src)
    fn = next(n for n in ast.walk(tree) if isinstance(n, ast.FunctionDef) and n.name == "multiply")
    call_guard = None
    assigns = {}
    for node in ast.walk(fn):
        if isinstance(node, ast.Assign) and len(node.targets) == 1 and isinstance(node.targets[0], ast.Name):
            assigns[node.targets[0].id] = node.value
    for node in ast.walk(fn):
        if isinstance(node, ast.If):
            calls = [c for st in node.body for c in ast.walk(st) if isinstance(c, ast.Call) and isinstance(c.func, ast.Attribute) and c.func.attr == "cmultiply"]
            if calls:
                call_guard = node.test
    unguarded = call_guard is None and any(isinstance(c, ast.Call) and isinstance(c.func, ast.Attribute) and c.func.attr == "cmultiply" for c in ast.walk(fn))
    return call_guard, assigns, unguarded, src


class Untranslatable(Exception):
    pass


def guard_to_z3(test, assigns, maxexp, offset):
    """Translate the exponent-related conjunct(s) of the guard; dtype conjuncts are True for the kernel dtypes."""

    def ev(node):
        if isinstance(node, ast.BoolOp) and isinstance(node.op, ast.And):
            return z3.And(*[ev(v) for v in node.values])
        if isinstance(node, ast.BoolOp) and isinstance(node.op, ast.Or):
            return z3.Or(*[ev(v) for v in node.values])
        if isinstance(node, ast.Name) and node.id in assigns:
            return ev(assigns[node.id])
        if isinstance(node, ast.Compare) and len(node.ops) == 1:
            if isinstance(node.ops[0], ast.In):  # dtype membership conjuncts: assume a kernel dtype
                return z3.BoolVal(True)
            l, r = num(node.left), num(node.comparators[0])
            op = node.ops[0]
            return {ast.Lt: l < r, ast.LtE: l <= r, ast.Gt: l > r, ast.GtE: l >= r, ast.Eq: l == r, ast.NotEq: l != r}[type(op)]
        if isinstance(node, ast.Constant) and isinstance(node.value, bool):
            return z3.BoolVal(node.value)
        raise Untranslatable(ast.dump(node)[:80])

    def num(node):
        if isinstance(node, ast.Constant) and isinstance(node.value, int):
            return z3.IntVal(node.value)
        if isinstance(node, ast.BinOp) and isinstance(node.op, (ast.Add, ast.Sub)):
            a, b = num(node.left), num(node.right)
            return a + b if isinstance(node.op, ast.Add) else a - b
        if isinstance(node, ast.Attribute) and node.attr == "KEY_OFFSET":
            return z3.IntVal(offset)
        if isinstance(node, ast.Call) and isinstance(node.func, ast.Name) and node.func.id == "int":
            return num(node.args[0])
        if isinstance(node, ast.Call) and isinstance(node.func, ast.Attribute) and node.func.attr in ("max", "amax"):
            return maxexp  # numpy.max(exponents, ...) : the largest pairwise exponent sum (uint32)
        if isinstance(node, ast.Name) and node.id in assigns:
            return num(assigns[node.id])
        raise Untranslatable(ast.dump(node)[:80])

    return ev(test)


def kernel_shape() -> Dict[str, Any]:
    pyx = _src("cfunctions/cmultiply.pyx")
    ok = {
        "sprintf_c": bool(re.search(r'sprintf\(key \+ key_len, "%c", expons1\[i, k\] \+ expons2\[j, k\] \+ offset\)', pyx)),
        "decode_utf8": bool(re.search(r"key\[:key_len\]\.decode\('utf-8'\)", pyx)),
        "set_then_add": bool(re.search(r"if key_str in seen:\s*\n\s*numpoly\.cadd_values.*\n\s*else:\s*\n\s*numpoly\.cset_values.*\n\s*seen\.add\(key_str\)", pyx)),
        "uint32_args": pyx.count("np.ndarray[np.uint32_t, ndim=2] expons") >= 2,
    }
    return ok


# ----------------------------------------------------------------------------- K2
def k2_query(timeout_s=60) -> Dict:
    t0 = time.time()
    offset = extract_offset()
    guard, assigns, unguarded, _ = extract_guard()
    shape = kernel_shape()
    if not all(shape.values()):
        return {"status": "inconclusive", "reason": "cmultiply.pyx is outside the recognised kernel shape: %s" % shape}
    D, R = 2, 2
    e1 = [[z3.BitVec("a%d_%d" % (i, k), 32) for k in range(D)] for i in range(R)]
    e2 = [[z3.BitVec("b%d_%d" % (j, k), 32) for k in range(D)] for j in range(R)]
    s = z3.Solver()
    s.set("timeout", timeout_s * 1000)
    B = 2 ** 31
    for row in e1 + e2:
        for v in row:
            s.add(z3.ULT(v, B))
    sums = [[[e1[i][k] + e2[j][k] for k in range(D)] for j in range(R)] for i in range(R)]  # uint32 arithmetic as numpy/C do
    mx = z3.BV2Int(sums[0][0][0])
    for i in range(R):
        for j in range(R):
            for k in range(D):
                v = z3.BV2Int(sums[i][j][k])
                mx = z3.If(v > mx, v, mx)
    if unguarded:
        g = z3.BoolVal(True)
        gtxt = "cmultiply is called unconditionally"
    elif guard is None:
        return {"status": "proved", "note": "multiply.py never calls the byte-oriented kernel", "solver_s": 0.0}
    else:
        try:
            g = guard_to_z3(guard, assigns, mx, offset)
            gtxt = ast.unparse(guard)
        except Untranslatable as e:
            return {"status": "inconclusive", "reason": "guard not translatable: %s" % e}
    # kernel key bytes: (e1+e2+offset) as C unsigned, "%c" keeps the low byte; UTF-8 decode is the identity exactly on ASCII
    bad = []
    for i in range(R):
        for j in range(R):
            for k in range(D):
                byte = z3.Extract(7, 0, sums[i][j][k] + offset)
                true_cp = sums[i][j][k] + offset
                bad.append(z3.Or(z3.UGE(byte, 128), z3.ZeroExt(24, byte) != true_cp))
    s.add(g, z3.Or(*bad))
    r = str(s.check())
    res = {"guard": gtxt, "kernel_shape": shape, "result": r, "solver_s": round(time.time() - t0, 3), "bounds": "D=2, 2x2 exponent rows, exponents < 2**31"}
    if r == "unsat":
        res["status"] = "proved"
    elif r == "sat":
        m = s.model()
        res["status"] = "counterexample"
        res["e1"] = [[m.eval(v, model_completion=True).as_long() for v in row] for row in e1]
        res["e2"] = [[m.eval(v, model_completion=True).as_long() for v in row] for row in e2]
    else:
        res["status"] = "inconclusive"
        res["reason"] = "solver " + r
    return res


def replay_product(e1, e2) -> Tuple[bool, str]:
    """Native: (sum_i c_i q^e1_i) * (sum_j d_j q^e2_j) with distinct prime coefficients vs exact expectation."""
    import numpoly

    D = len(e1[0])
    names = tuple("q%d" % k for k in range(D))
    rows1 = sorted({tuple(r) for r in e1})
    rows2 = sorted({tuple(r) for r in e2})
    c1 = [2, 3, 5, 7][: len(rows1)]
    c2 = [11, 13, 17, 19][: len(rows2)]
    want: Dict[Tuple, int] = {}
    for r1, a in zip(rows1, c1):
        for r2, b in zip(rows2, c2):
            k = tuple(x + y for x, y in zip(r1, r2))
            want[k] = want.get(k, 0) + a * b
    try:
        p = numpoly.polynomial_from_attributes([list(r) for r in rows1], c1, names=names, retain_names=True)
        q = numpoly.polynomial_from_attributes([list(r) for r in rows2], c2, names=names, retain_names=True)
        r = p * q
        got = {tuple(int(v) for v in e): int(c) for e, c in zip(r.exponents.tolist(), r.coefficients) if int(c) != 0}
    except Exception as e:
        if max(max(k) for k in want) < 55000:
            return True, "raises %s: %s for exponents below 55000" % (type(e).__name__, str(e)[:80])
        return False, "raises %s (allowed: not representable)" % type(e).__name__
    if got != want:
        return True, "product has terms %s, expected %s" % (got, want)
    return False, "product correct"


# ----------------------------------------------------------------------------- K3
def numpy_axioms_validate(offset) -> List[str]:
    """Real numpy on the boundary code points: which code units survive the U-view round trip."""
    import numpoly

    problems = []
    table = []
    for cp in [59, 60, 127, 128, 255, 256, 0xD7FF, 0xD800, 0xDFFF, 0xE000, 0x10FFFF]:
        e = cp - offset
        try:
            p = numpoly.ndpoly(exponents=[[e, 1], [0, e]], shape=(), names=("q0", "q1"))
            back = p.exponents.tolist()
            ok = back == [[e, 1], [0, e]]
            table.append((cp, "ok" if ok else "DIFFERENT %s" % back))
            if not ok:
                problems.append("code point %#x: exponents come back as %s" % (cp, back))
        except Exception as ex:
            table.append((cp, "raises %s" % type(ex).__name__))
            if e < 55000:
                problems.append("code point %#x (exponent %d < 55000) raises %s" % (cp, e, type(ex).__name__))
    return problems


def exhaustive_codec_sweep(limit=55237) -> List[str]:
    """Axiom validation, exhaustive: every exponent below the surrogate boundary, in every position, through the real
    construction -> raw view -> structured import -> back (one- and two-indeterminate rows, 512 rows per polynomial)."""
    import numpoly

    problems: List[str] = []
    B = 512
    for D in (1, 2):
        for lo in range(0, limit, B):
            es = list(range(lo, min(lo + B, limit)))
            variants = [[[e] for e in es]] if D == 1 else [[[e, (e * 7 + 3) % 50] for e in es], [[(e * 5 + 1) % 60, e] for e in es], [[e, e] for e in es]]
            for rows in variants:
                try:
                    p = numpoly.ndpoly(exponents=rows, shape=(), names=tuple("q%d" % k for k in range(D)))
                    vals = p.values
                    for i, k in enumerate(p.keys):
                        vals[k] = i + 1
                    if p.exponents.tolist() != rows:
                        problems.append("exponents %d..%d (D=%d): ndpoly.exponents differs from the rows given" % (lo, es[-1], D))
                        continue
                    for route, f in (("polynomial(values)", lambda: numpoly.polynomial(p.values, names=p.names)), ("aspolynomial(values)", lambda: numpoly.aspolynomial(p.values, names=p.names))):
                        q = f()
                        got = {tuple(int(v) for v in r): int(c) for r, c in zip(q.exponents.tolist(), q.coefficients)}
                        want = {tuple(r): i + 1 for i, r in enumerate(rows)}
                        if got != want:
                            miss = sorted(set(want) - set(got))[:3]
                            extra = sorted(set(got) - set(want))[:3]
                            problems.append("exponents %d..%d (D=%d) via %s: terms lost %s / invented %s" % (lo, es[-1], D, route, miss, extra))
                except Exception as ex:
                    problems.append("exponents %d..%d (D=%d): %s: %s" % (lo, es[-1], D, type(ex).__name__, str(ex)[:60]))
            if len(problems) > 20:
                return problems
    return problems


def k3_query(timeout_s=60) -> Dict:
    t0 = time.time()
    shapes = extract_codec_shapes()
    if not all(shapes.values()):
        return {"status": "inconclusive", "reason": "codec expressions not in the recognised form: %s" % {k: bool(v) for k, v in shapes.items()}}
    offset = extract_offset()
    D = 3
    s = z3.Solver()
    s.set("timeout", timeout_s * 1000)
    e = [z3.BitVec("e%d" % k, 32) for k in range(D)]
    f = [z3.BitVec("f%d" % k, 32) for k in range(D)]
    B = 2 ** 31
    s.add(*[z3.ULT(v, B) for v in e + f])
    enc = lambda v: v + offset  # uint32 + int -> uint32 (wraps); U-view: the code unit IS the uint32
    # numpy string semantics: trailing NUL code units are not part of the string; astype("U{D}") pads them back
    dec = lambda c: c - offset
    roundtrip_bad = z3.Or(*[dec(enc(v)) != v for v in e])
    # two different rows -> same key string (strings compare equal iff all code units equal after NUL padding)
    collide = z3.And(z3.Or(*[a != b for a, b in zip(e, f)]), z3.And(*[enc(a) == enc(b) for a, b in zip(e, f)]))
    # a key character that numpy would strip (NUL) changes the key length: only reachable by wrap-around
    nul = z3.Or(*[enc(v) == 0 for v in e])
    s.add(z3.Or(roundtrip_bad, collide, nul))
    r = str(s.check())
    res = {"offset": offset, "result": r, "solver_s": round(time.time() - t0, 3), "bounds": "D <= 3, every exponent < 2**31", "expressions": {k: v.split("\n")[0][:70] for k, v in shapes.items()}}
    res["axiom_validation"] = numpy_axioms_validate(offset) + exhaustive_codec_sweep()
    res["axiom_validation_sweep"] = "every exponent 0..55236 in each position of 1- and 2-indeterminate rows through ndpoly.__new__/exponents/polynomial(values)/aspolynomial(values)"
    if r == "unsat" and not res["axiom_validation"]:
        res["status"] = "proved"
    elif r == "sat" or res["axiom_validation"]:
        res["status"] = "counterexample"
        if r == "sat":
            m = s.model()
            res["e"] = [m.eval(v, model_completion=True).as_long() for v in e]
            res["f"] = [m.eval(v, model_completion=True).as_long() for v in f]
    else:
        res["status"] = "inconclusive"
        res["reason"] = "solver " + r
    return res


# ----------------------------------------------------------------------------- K4
def k4_query(timeout_s=60) -> Dict:
    t0 = time.time()
    sv = sys.modules.get("numpoly.array_function.savetxt")
    ld = sys.modules.get("numpoly.array_function.loadtxt")
    import numpoly  # noqa

    sv = sys.modules["numpoly.array_function.savetxt"]
    ld = sys.modules["numpoly.array_function.loadtxt"]
    tmpl = sv.HEADER_TEMPLATE
    rx = ld.HEADER_REGEX.pattern
    if tmpl != "numpoly:{version} names:{names} keys:{keys} shape:{shape}" or not re.fullmatch(r"numpoly:\\S\+ names:\(\\S\+\) keys:\(\\S\+\) shape:\(\\S[+*]\)", rx):
        return {"status": "inconclusive", "reason": "header template / regex outside the recognised form: %r / %r" % (tmpl, rx)}
    offset = extract_offset()
    # whitespace table of this interpreter's `re` (what \S excludes)
    ws = [cp for cp in range(0x3100) if re.fullmatch(r"\s", chr(cp))]
    # two keys of D=2 characters each; characters are code points c = e + offset, e < 2**16 here (string theory bound)
    ks = [[z3.Int("c%d_%d" % (i, k)) for k in range(2)] for i in range(2)]
    s = z3.Solver()
    s.set("timeout", timeout_s * 1000)
    for row in ks:
        for c in row:
            s.add(c >= offset, c < offset + 2 ** 16)
    key = lambda row: z3.Concat(*[z3.StrFromCode(c) for c in row])
    written = z3.Concat(key(ks[0]), z3.StringVal(","), key(ks[1]))
    nons = z3.Complement(z3.Union(*[z3.Re(z3.StringVal(chr(cp))) for cp in ws]))
    nons1 = z3.Intersect(nons, z3.AllChar(z3.ReSort(z3.StringSort())))
    group = z3.Plus(nons1)
    matches = z3.InRe(written, group)  # the keys group must be matched entirely by \S+ (delimited by the literal ' shape:')
    # recovered list = split(",") of the matched group; with full match: differs iff a key contains ','
    has_comma = z3.Or(*[c == 44 for row in ks for c in row])
    s.add(matches, has_comma)
    r1 = str(s.check())
    # second obligation: if some key character is whitespace the regex cannot match the full group -> loadtxt raises (allowed)
    res = {"template": tmpl, "regex": rx, "result": r1, "whitespace_code_points_excluded": len(ws), "solver_s": round(time.time() - t0, 3), "bounds": "2 keys x 2 characters, exponents < 2**16"}
    if r1 == "unsat":
        res["status"] = "proved"
    elif r1 == "sat":
        m = s.model()
        res["status"] = "counterexample"
        res["keys"] = [[m.eval(c, model_completion=True).as_long() - offset for c in row] for row in ks]
    else:
        res["status"] = "inconclusive"
        res["reason"] = "solver " + r1
    return res


# ----------------------------------------------------------------------------- E1 ladder
def ladder(offset: int) -> List[int]:
    """Exponent ladder derived from the boundaries: single-byte limit (128), byte wrap (256), BMP surrogates."""
    pts = {0, 1}
    for cp in (128, 256, 0xD800):
        for d in (-1, 0):
            e = cp + d - offset
            if 0 <= e < 55237:
                pts.add(e)
    pts |= {(128 - offset) // 2, (256 - offset) // 2 + 1, 55000}
    # beyond the surrogate gap the keys are valid again (astral code points): 16-bit boundaries of key and of exponent, 10**5,
    # and the last code point.  Raising is acceptable up there, another monomial is not.
    pts |= {0xE000 - offset, 60000, 0xFFFF - offset, 0x10000 - offset, 0xFFFF, 0x10000, 70000, 100000, 0x10FFFF - offset}
    return sorted(pts)


def body(ctx: H.BaseCtx):
    import pickle
    import numpoly

    case = ctx.case
    spec, spec2 = case["poly"], case.get("poly2")
    p = ctx.build(spec)
    mp = ctx.model(spec)
    names = list(spec["names"])
    op = case["fn"]
    try:
        if op == "raw-view":
            q = numpoly.polynomial(p.values, names=p.names)
            ctx.expect_model(q, mp, "values -> polynomial")
            q2 = numpoly.aspolynomial(p.values, names=p.names)
            ctx.expect_model(q2, mp, "values -> aspolynomial")
            q3 = numpoly.polynomial(p.todict(), names=p.names)
            ctx.expect_model(q3, mp, "todict -> polynomial")
            check_invariants(ctx, q, "rebuilt")
        elif op == "align":
            p2 = ctx.build(spec2)
            a, b = numpoly.align_polynomials(p, p2)
            ctx.expect_model(a, numpy.broadcast_to(mp, a.shape), "aligned 0")
            ctx.expect_model(b, numpy.broadcast_to(ctx.model(spec2), b.shape), "aligned 1")
            ctx.expect_model(p + p2, M.amap(lambda x, y: x + y, mp, ctx.model(spec2)), "sum")
        elif op == "mul":
            p2 = ctx.build(spec2)
            r = p * p2
            ctx.expect_model(r, M.amap(lambda x, y: x * y, mp, ctx.model(spec2)), "product")
            check_invariants(ctx, r, "product")
        elif op == "mul-out":
            # explicit output polynomial that holds the product's terms among others, in its own order (zero-initialised)
            p2 = ctx.build(spec2)
            want = M.amap(lambda x, y: x * y, mp, ctx.model(spec2))
            prod_exps = sorted({tuple(a + b for a, b in zip(e1, e2)) for e1 in spec["exps"] for e2 in spec2["exps"]})
            extra = [tuple([0] * len(names)), tuple([1] + [0] * (len(names) - 1))]
            rows = [list(e) for e in dict.fromkeys(list(reversed(prod_exps)) + extra)]
            out = numpoly.ndpoly(exponents=rows, shape=(), names=tuple(names), dtype=p.dtype)
            for key in out.keys:
                out.values[key] = 0
            r = numpoly.multiply(p, p2, out=out)
            ctx.expect_model(out, want, "multiply(..., out=) (the output polynomial)")
            if r is not None:
                ctx.expect_model(r, want, "multiply(..., out=) (the returned value)")
        elif op == "pow":
            r = p ** case["k"]
            ctx.expect_model(r, M.amap(lambda x: x ** case["k"], mp), "power")
        elif op == "derivative":
            r = numpoly.derivative(p, names[0])
            ctx.expect_model(r, M.amap(lambda x: x.derivative(names[0]), mp), "derivative")
        elif op == "call":
            # evaluate at 1 and at -1 (any larger base overflows natively for large exponents)
            for v in (1, -1):
                env = {n: numpy.int64(v) if not ctx.symbolic else v for n in names}
                r = p(**env)
                ctx.expect_model(r, M.amap(lambda x: x.subst({n: v for n in names}), mp), "call(%d)" % v)
        elif op == "text":
            # native runs only (file I/O): same encoding on both legs; the file either loads back as the same polynomial
            # or the round trip raises -- never a different monomial
            if not ctx.symbolic:
                import os
                import tempfile

                for enc in (None, "utf-8", "latin1", "utf-16"):
                    fd, path = tempfile.mkstemp(suffix=".txt")
                    os.close(fd)
                    try:
                        kw = {} if enc is None else {"encoding": enc}
                        try:
                            numpoly.savetxt(path, p, **kw)
                            q = numpoly.loadtxt(path, **kw)
                        except Exception:
                            continue  # refusing is allowed, confusing is not
                        if not isinstance(q, numpoly.ndpoly):
                            ctx.fail("type", "text round trip (encoding=%s) returned %s" % (enc, type(q).__name__))
                            continue
                        ctx.expect_model(q.reshape(p.shape) if q.size == p.size else q, mp, "text round trip (encoding=%s)" % enc, rtol=1e-9)
                    finally:
                        os.unlink(path)
        elif op == "reject":
            # exponents without a storage key (negative, in the surrogate gap, past the last code point, past 32 bits): every
            # constructor either raises or returns exactly that monomial -- never a wrapped-around one
            e = case["e"]
            coef = p.coefficients[0]
            routes = {
                "polynomial(dict)": lambda: numpoly.polynomial({(e, 1): coef, (0, 0): 1}, names=("q0", "q1")),
                "polynomial_from_attributes": lambda: numpoly.polynomial_from_attributes([[e, 1], [0, 0]], [coef, 1], names=("q0", "q1")),
                "ndpoly(int64 exponent array)": lambda: numpoly.ndpoly(exponents=numpy.array([[e, 1], [0, 0]], dtype=numpy.int64), shape=(), names=("q0", "q1")),
                "ndpoly.from_attributes": lambda: numpoly.ndpoly.from_attributes([[e, 1], [0, 0]], [coef, 1], names=("q0", "q1")),
            }
            for rname, f in routes.items():
                try:
                    r = f()
                except Exception:
                    continue
                if rname.startswith("ndpoly("):
                    got = [tuple(int(v) for v in row) for row in r.exponents.tolist()]
                    if sorted(got) != sorted([(e, 1), (0, 0)]):
                        ctx.fail("key", "%s with exponent %d stores exponents %s" % (rname, e, got))
                    continue
                if e > 0:
                    cm = M.flat_items(mp)[0].coeff((("q0", 1),))  # the operand's only coefficient, as the model sees it
                    exp = M.mp_array([M.MP({(("q0", e), ("q1", 1)): cm}) + M.MP.const(1)], ())
                if e <= 0:
                    cm = M.flat_items(mp)[0].coeff((("q0", 1),))
                    if bool(cm != 0):
                        ctx.fail("key", "%s accepts the negative exponent %d and returns %s" % (rname, e, [tuple(int(v) for v in row) for row in r.exponents.tolist()]))
                    else:  # a zero coefficient: the term may be dropped before it is ever stored
                        ctx.expect_model(r, M.mp_array([M.MP.const(1)], ()), "%s with exponent %d and a zero coefficient" % (rname, e))
                else:
                    ctx.expect_model(r, exp, "%s with exponent %d" % (rname, e))
        elif op == "reject-chain":
            # exponents that only arise as results: a power of a power (of a product, of a substituted monomial) whose exponent
            # a*n has no storage key or is past 32 bits -- the operation raises, or stores exactly q**(a*n); never another monomial
            if not ctx.symbolic and H.NATIVE_RUN_INDEX == 0:
                q0, q1 = numpoly.variable(2)
                mono = lambda i, e: numpoly.polynomial({tuple(e if j == i else 0 for j in range(2)): 1}, names=("q0", "q1"))  # (built directly: q0**e is e products)
                for a, n_ in case["pairs"]:
                    chains = {
                        "(q0**a)**n": lambda: mono(0, a) ** n_,
                        "numpoly.power(q0**a, n)": lambda: numpoly.power(mono(0, a), n_),
                        "(q0**a * q1**3)**n": lambda: (mono(0, a) * q1 ** 3) ** n_,
                        "(q0**n)(q0=q1**a)": lambda: mono(0, n_)(q0=mono(1, a)),
                        "(2*q0**a)**n": lambda: (2.0 * mono(0, a)) ** n_,
                    }
                    for cname, f in chains.items():
                        try:
                            r = f()
                        except Exception:
                            continue  # refusing is allowed
                        tot = a * n_
                        if not isinstance(r, numpoly.ndpoly):
                            ctx.fail("key", "%s with a=%d, n=%d (a*n = %d) returns the plain value %s" % (cname, a, n_, tot, numpy.asarray(r).tolist()))
                            continue
                        got = sorted(tuple(int(v) for v in row) for row, c in zip(r.exponents.tolist(), r.coefficients) if numpy.any(numpy.asarray(c) != 0))
                        if not got or max(max(g) for g in got) != tot:
                            ctx.fail("key", "%s with a=%d, n=%d (a*n = %d) returns the exponents %s" % (cname, a, n_, tot, got))
        elif op == "special":
            # native only: coefficients that are complex with tiny / purely imaginary parts, on ladder exponents: a term stays a term
            if not ctx.symbolic:
                from .. import special as SP

                def mono(c, e):
                    m = numpoly.ndpoly(exponents=[[e]], shape=(), names=("q0",), dtype=complex)
                    m.values[m.keys[0]] = c
                    return m

                with numpy.errstate(all="ignore"):
                    for a, b in case["pairs"]:
                        for c1, c2 in ((2e-8j, 3e-8), (1e-15j, 1.0), (1 + 1e-20j, 2.0), (1j, 1j), (3e-200, 1e-150j)):
                            try:
                                r = mono(c1, a) * mono(c2, b)
                                SP.expect_terms(ctx, r, {(a + b,): numpy.asarray(numpy.complex128(c1) * numpy.complex128(c2))}, "(%s*q0**%d) * (%s*q0**%d)" % (c1, a, c2, b))
                                s_ = mono(c1, a) + mono(c2, b) if a != b else None
                                if s_ is not None:
                                    SP.expect_terms(ctx, s_, {(a,): numpy.asarray(numpy.complex128(c1)), (b,): numpy.asarray(numpy.complex128(c2))}, "(%s*q0**%d) + (%s*q0**%d)" % (c1, a, c2, b))
                            except Exception as e:
                                if a + b < 55000:
                                    ctx.unexpected_exception(e, "complex monomials at exponents %d, %d" % (a, b))
        elif op == "pickle":
            q = pickle.loads(pickle.dumps(p))
            ctx.expect_model(q, mp, "pickle")
            if q.exponents.tolist() != p.exponents.tolist():
                ctx.fail("exponents", "pickle: exponents %s != %s" % (q.exponents.tolist(), p.exponents.tolist()))
    except Exception as e:
        maxe = max([max(r) for r in spec["exps"]] + ([max(r) for r in spec2["exps"]] if spec2 else [0]))
        bound = maxe * (case.get("k", 1) if op == "pow" else (2 if op == "mul" else 1))
        if bound < 55000:
            ctx.unexpected_exception(e, op)
        # else: not representable -> raising is the required behaviour


def body_for(case):
    return body


def replay_case(case, values, rec):
    if case.get("part") == "K2":
        bad, out = replay_product(case["e1"], case["e2"])
        return [H.Issue(rec.get("kind", "key"), "multiply", out)] if bad else []
    if case.get("part") in ("K3", "K4"):
        r = {"K3": k3_query, "K4": k4_query}[case["part"]]()
        return [H.Issue(rec.get("kind", "key"), case["part"], str(r)[:200])] if r["status"] == "counterexample" else []
    return H.concrete_run_poisoned(body, case, values, None)


def run_case(case: Dict) -> Dict:
    t0 = time.time()
    part = case.get("part")
    if part in ("K2", "K3", "K4"):
        r = {"K2": k2_query, "K3": k3_query, "K4": k4_query}[part]()
        rep = {"case": case, "paths": 1, "exhausted": r["status"] == "proved", "nontrivial": True, "path_log": [r], "confirmed": [], "unconfirmed": [],
               "stats": {"validity_queries": 1, "solver_s": r.get("solver_s", 0), "decisions": 1}, "wall_s": time.time() - t0}
        if r["status"] == "inconclusive":
            rep["n_inconclusive"] = 1
            rep["inconclusive"] = [r.get("reason", "")]
        if r["status"] == "counterexample":
            rep["raw_issues"] = 1
            if part == "K2":
                bad, out = replay_product(r["e1"], r["e2"])
                rec = {"kind": "key", "op": "multiply", "detail": "guard %r admits exponent rows %s x %s: %s" % (r.get("guard"), r["e1"], r["e2"], out), "signature": "K2|key", "values": {}, "preconfirmed": True}
                c2 = dict(case, e1=r["e1"], e2=r["e2"])
                rep["case"] = c2
                (rep["confirmed"] if bad else rep["unconfirmed"]).append(rec)
            else:
                rec = {"kind": "key", "op": part, "detail": "%s: %s" % (part, {k: r[k] for k in r if k in ("e", "f", "keys", "axiom_validation")}), "signature": part + "|key", "values": {}, "preconfirmed": True}
                if part == "K3" and r.get("axiom_validation"):
                    rep["confirmed"].append(rec)
                elif part == "K3":
                    # witness must reproduce on real numpy
                    import numpoly

                    try:
                        pp = numpoly.ndpoly(exponents=[r["e"], r["f"]], shape=(), names=("q0", "q1", "q2"))
                        bad = pp.exponents.tolist() != [r["e"], r["f"]]
                    except Exception:
                        bad = max(r["e"] + r["f"]) < 55000
                    (rep["confirmed"] if bad else rep["unconfirmed"]).append(rec)
                else:
                    rep["unconfirmed"].append(rec)
        return rep
    specs = [case["poly"], case.get("poly2")]
    return H.simple_run_case(case, body, specs)


def gen_cases(tier: str, seed: int) -> List[Dict]:
    rng = random.Random(20000 + seed)
    quick = tier == "quick"
    lim = H.limits(tier)
    cases: List[Dict] = [
        {"id": "C20-K2-product-keys", "op": "K2", "part": "K2"},
        {"id": "C20-K3-key-codec", "op": "K3", "part": "K3"},
        {"id": "C20-K4-text-header", "op": "K4", "part": "K4"},
    ]
    lad = ladder(extract_offset())
    off0 = extract_offset()
    n = 0

    def add(fn, spec, spec2=None, **kw):
        nonlocal n
        n += 1
        c = {"id": "%s-%03d-%s" % (PROP, n, fn), "op": fn, "fn": fn, "poly": spec, "poly2": spec2, "limits": lim}
        c.update(kw)
        cases.append(c)

    def P(prefix, names, rows, shape=()):
        rows = [list(r) for r in sorted({tuple(r) for r in rows})]
        return S.make_poly_spec(prefix, names, rows, shape, rng, 3, zero_prob=0.0, literal_prob=0.2, mode=rng.choice(["raw", "clean"]))

    pairs = [(a, b) for a in lad for b in lad if a <= b]
    rng.shuffle(pairs)
    for a, b in pairs[: (30 if quick else len(pairs))]:
        add("mul", P("a", ("q0",), [[a], [0]]), P("b", ("q0",), [[b], [1]]))
    for a, b in pairs[: (10 if quick else 40)]:
        add("mul", P("a", ("q0", "q1"), [[a, 1], [0, b]]), P("b", ("q0", "q1"), [[b, 0], [1, a]]))
    for a, b in pairs[: (12 if quick else 60)]:
        # (raw operands: a cleaned all-zero operand would drop names, and an output polynomial over other names is a caller's error)
        raw = lambda sp: {k: v for k, v in dict(sp, mode="raw").items() if k != "pre"}  # (as constructed: the output polynomial is sized for these terms)
        add("mul-out", raw(P("a", ("q0",), [[a], [0]])), raw(P("b", ("q0",), [[b], [1]])))
        add("mul-out", raw(P("a", ("q0", "q1"), [[a, 1], [0, 2]])), raw(P("b", ("q0", "q1"), [[b, 0]])))
    for e in lad:
        add("raw-view", P("a", ("q0", "q1"), [[e, 0], [1, e], [0, 0]], rng.choice([(), (2,)])))
        add("pickle", P("a", ("q0", "q2"), [[e, 1], [0, e]]))
        add("text", P("a", ("q0", "q2"), [[e, 1], [0, e]], (2,)))
        add("derivative", P("a", ("q0", "q1"), [[e, 1], [1, e], [0, 0]]))
        add("call", P("a", ("q0",), [[e], [1], [0]]))
        add("align", P("a", ("q0",), [[e], [0]]), P("b", ("q1",), [[e + 1]], (2,)))
        for k in (2, 3):
            if e * k <= 60000 and (not quick or rng.random() < 0.6):
                add("pow", P("a", ("q0",), [[e], [0]] if e * k < 400 else [[e]]), k=k)
    # exponents whose key character means something to text processing: white space of every kind (U+0085, U+00A0, U+1680, U+2000,
    # U+2028/9, U+202F, U+205F, U+3000), the byte-order mark, backslash and braces -- through the text format and pickle
    for cp in (0x85, 0xA0, 0x1680, 0x2000, 0x2028, 0x2029, 0x202F, 0x205F, 0x3000, 0xFEFF, ord(chr(92)), ord("{"), ord("}"), 0x7F, 0xAD):
        e = cp - off0
        add("text", P("a", ("q0", "q2"), [[e, 1], [0, e]], (2,)))
        add("pickle", P("a", ("q0", "q2"), [[e, 1], [0, e]]))
    for e in (-1, -60, 0xD800 - off0, 0xDFFF - off0, 0x110000 - off0, 2 ** 31, 2 ** 32, 2 ** 32 + 5, 2 ** 32 - 1):
        add("reject", {k: v for k, v in P("a", ("q0",), [[1]]).items() if k != "pre"}, e=e)  # (the body reads the operand's only stored coefficient)
    add("reject-chain", {k: v for k, v in P("a", ("q0",), [[1]]).items() if k != "pre"}, native_only=True, pairs=[(50000, 85900), (65536, 65536), (65536, 65537), (40000, 107375), (300000, 14317), (1000000, 4295), (2 ** 20, 2 ** 12)])
    # packing boundaries: exponent rows whose rank as one machine word (sum e_i * base**i, base = largest exponent + 1) reaches
    # 2**32 or 2**64 exactly -- unit vectors in the leading indeterminates next to the largest exponent in the last one
    for maxexp, nn in ((255, 4), (255, 8), (65535, 2), (65535, 3), (65535, 4), (15, 8), (15, 16), (3, 16), (3, 32), (1, 32), (1, 64)):
        names_ = tuple("q%d" % i for i in range(nn))
        unit = lambda i, v=1: [v if j == i else 0 for j in range(nn)]
        rows_a = [unit(0), unit(nn - 1, maxexp), [0] * nn]
        rows_b = [unit(1 % nn), unit(nn - 1, maxexp), unit(0)]
        add("align", dict(P("a", names_, rows_a), mode="raw"), dict(P("b", names_, rows_b), mode="raw"), tag_boundary=True)
    add("special", P("a", ("q0",), [[1]]), pairs=[[3, 4], [0, 1], [68, 69], [200, 400], [30000, 24999]])
    # text files: key characters that are one byte in latin1 but not valid UTF-8 on their own, and the first ones latin1 cannot write
    off = extract_offset()
    for e in sorted({128 - off, 100, 0xC3 - off, 0xE9 - off, 255 - off, 256 - off, 300}):
        add("text", P("a", ("q0",), [[e], [1]], (2,)))
    return cases


def main(argv=None) -> int:
    return H.simple_main(
        PROP, MOD, gen_cases,
        rule="one case = a kernel/codec/header proof obligation over all 32-bit exponents (K2-K4) or (operation, ladder exponents) with symbolic coefficients; non-trivial = every obligation and "
        "every ladder case with >= 2 paths",
        bounds={"K2": "D=2, 2x2 exponent rows, exponents < 2**31, guard and kernel shape read from the sources", "K3": "D<=3, exponents < 2**31", "K4": "2 keys x 2 chars, exponents < 2**16",
                "ladder": "exponents around the single-byte (128), byte-wrap (256) and surrogate (0xD800) boundaries and 55000, 1-2 indeterminates",
                "outside": "exponent sums >= 2**32 (uint32 wrap), exponents whose key character is a surrogate or beyond U+10FFFF (errors are raised there), the compiled kernels themselves (no Cython here: "
                "the .pyx text is analysed, replays run the shipped binaries)"},
        functions=["ndpoly.__new__ (key encode)", "ndpoly.exponents (decode)", "numpoly.polynomial (structured import)", "numpoly.multiply (kernel guard + numpy path)", "cmultiply.pyx (text)",
                   "savetxt.HEADER_TEMPLATE / loadtxt.HEADER_REGEX", "power", "derivative", "call", "align", "__reduce__"],
        assumptions=["numpy string views: the UCS4 code unit is the uint32; trailing NULs are not part of a string (validated on boundary code points each run)",
                     "sprintf('%c', v) stores (unsigned char) v; UTF-8 decoding is the identity exactly on bytes < 128"],
        argv=argv,
    )


if __name__ == "__main__":
    sys.exit(main())
