"""C03 — returned polynomials are well-formed and regenerate from their attributes (E1)."""
from __future__ import annotations

import itertools
import random
import sys
from typing import Dict, List

import numpy

from .. import harness as H
from .. import model as M
from .. import structures as S
from ..common import check_invariants, snapshot_args, check_unmodified
from .c01 import eval_expr

PROP = "C03"
MOD = "nv.checks.c03"


def _rebuild_checks(ctx, p, what):
    import numpoly

    mp = M.to_model(p)
    names = tuple(p.names)
    shape = tuple(p.shape)
    routes = {
        "attributes": lambda: numpoly.polynomial_from_attributes(p.exponents, p.coefficients, p.names),
        "ndpoly.from_attributes": lambda: numpoly.ndpoly.from_attributes(p.exponents, p.coefficients, p.names),
        "values+names": lambda: numpoly.polynomial(p.values, names=p.names),
        "aspolynomial(values)": lambda: numpoly.aspolynomial(p.values, names=p.names),
        "todict": lambda: numpoly.polynomial(p.todict(), names=p.names),
        "polynomial(p)": lambda: numpoly.polynomial(p),
    }
    if len(p.keys) > 1 and p.dtype != object and not ctx.symbolic:
        # the raw structured view with its fields listed in another order (numpy keeps the offsets): same polynomial
        routes["values[fields reversed]+names"] = lambda: numpoly.polynomial(p.values[[str(k) for k in p.keys][::-1]], names=p.names)
        routes["values[fields rotated]+names"] = lambda: numpoly.polynomial(p.values[[str(k) for k in p.keys][1:] + [str(p.keys[0])]], names=p.names)
    # an explicit allocation (a storage hint: anything from the number of stored terms upwards) never changes the polynomial
    n = len(p.keys)
    routes["attributes allocation=terms+1"] = lambda: numpoly.polynomial_from_attributes(p.exponents, p.coefficients, p.names, allocation=n + 1)
    routes["values+names allocation=2*terms-1"] = lambda: numpoly.polynomial(p.values, names=p.names, allocation=max(n, 2 * n - 1))
    routes["polynomial(p) allocation=terms"] = lambda: numpoly.polynomial(p, allocation=n)
    routes["todict allocation=3*terms+1"] = lambda: numpoly.polynomial(p.todict(), names=p.names, allocation=3 * n + 1)
    if names == tuple("q%d" % i for i in range(len(names))):
        routes["todict (no names)"] = lambda: numpoly.polynomial(p.todict())
    for rname, route in routes.items():
        try:
            q = route()
        except Exception as e:
            ctx.unexpected_exception(e, "%s rebuilt from %s" % (what, rname))
            continue
        if not isinstance(q, numpoly.ndpoly):
            ctx.fail("type", "%s rebuilt from %s is %s" % (what, rname, type(q).__name__))
            continue
        ctx.expect_model(q, mp, "%s rebuilt from %s" % (what, rname))
        if tuple(q.shape) != shape:
            ctx.fail("shape", "%s rebuilt from %s: shape %s != %s" % (what, rname, tuple(q.shape), shape))
        if tuple(q.names) != names and rname != "todict (no names)":
            ctx.fail("names", "%s rebuilt from %s: names %s != %s" % (what, rname, tuple(q.names), names))
        if q.dtype != p.dtype:
            ctx.fail("dtype", "%s rebuilt from %s: dtype %s != %s" % (what, rname, q.dtype, p.dtype))
        check_invariants(ctx, q, "%s rebuilt from %s" % (what, rname))


def body_rebuild(ctx: H.BaseCtx):
    case = ctx.case
    ops = [ctx.build(s) for s in case["operands"]]
    try:
        r = eval_expr(case["expr"], ops, False)
    except Exception as e:
        ctx.unexpected_exception(e, "expr")
        return
    check_invariants(ctx, r, "result")
    _rebuild_checks(ctx, r, "result")


def body_triple(ctx: H.BaseCtx):
    """clean_attributes / polynomial_from_attributes contract on raw attribute triples."""
    import numpoly
    from numpoly.construct.clean import PolynomialConstructionError

    case = ctx.case
    spec = case["triple"]
    shape = tuple(spec["shape"])
    names = tuple(spec["names"])
    rows = [tuple(r) for r in spec["exps"]]
    vals = ctx.values()
    cols = [[S._slot_value(s, vals) for s in col] for col in spec["slots"]]
    if vals is None:
        from ..engine import oarray

        arrs = [oarray(c, shape) for c in cols]
    else:
        dt = S._native_dtype([v for c in cols for v in c])
        arrs = [numpy.array([S._native(v, dt) for v in c], dtype=dt).reshape(shape) for c in cols]
    rc, rn = case["retain_coefficients"], case["retain_names"]
    exp_model = M.from_attributes(rows, [numpy.asarray(a, dtype=object) for a in arrs], names, shape)
    dup_rows = len(set(rows)) != len(rows)
    dup_names = len(set(names)) != len(names)
    fn = {"from_attributes": numpoly.polynomial_from_attributes, "ndpoly.from_attributes": numpoly.ndpoly.from_attributes}[case.get("via", "from_attributes")]
    form = {"numpy": numpy.bool_, "int": int, "array0d": lambda v: numpy.array(v)}.get(case.get("flagform"), bool)  # the same truth value, another carrier
    try:
        p = fn(exponents=[list(r) for r in rows], coefficients=arrs, names=names, retain_coefficients=form(rc), retain_names=form(rn))
        exc = None
    except Exception as e:
        p, exc = None, e
    # which rows survive (decided under the path condition; forks where the path has not decided)
    def col_nonzero(a):
        return any(bool(x != 0) for x in (list(numpy.asarray(a, dtype=object).flat) if shape else [a.item() if hasattr(a, "item") else a]))

    if rc:
        kept = list(rows)
    else:
        kept = [r for r, a in zip(rows, arrs) if col_nonzero(a) or not any(r)]
        if not kept:
            kept = [tuple([0] * len(names))]
    if dup_names or len(set(kept)) != len(kept):
        # duplicates among the rows that remain (or names) must be rejected
        ctx.expect_exception(exc, [PolynomialConstructionError], "duplicate exponents/names")
        return
    if exc is not None:
        ctx.unexpected_exception(exc, "polynomial_from_attributes")
        return
    if rn:
        kept_names = list(names)
    else:
        kept_names = [n for i, n in enumerate(names) if any(r[i] for r in kept)] or [names[0]]
    want_rows = sorted(tuple(r[names.index(n)] for n in kept_names) for r in kept)
    got_rows = sorted(tuple(int(v) for v in r) for r in p.exponents.tolist())
    if tuple(p.names) != tuple(kept_names):
        ctx.fail("names", "names %s, expected %s (retain_names=%s)" % (tuple(p.names), tuple(kept_names), rn))
    elif got_rows != want_rows:
        ctx.fail("terms", "exponent rows %s, expected %s (retain_coefficients=%s)" % (got_rows, want_rows, rc))
    ctx.expect_model(p, exp_model, "constructed polynomial")
    check_invariants(ctx, p, "constructed polynomial")
    # clean_attributes on the result with the opposite flags never changes the denotation
    try:
        q = numpoly.clean_attributes(p, retain_coefficients=form(False), retain_names=form(False))
        ctx.expect_model(q, exp_model, "clean_attributes(result)")
        if not rc or not rn:
            qn = [n_ for i, n_ in enumerate(p.names) if any(int(r[i]) for r, a in zip(p.exponents.tolist(), p.coefficients) if col_nonzero(a))] or [p.names[0]]
            if tuple(q.names) != tuple(qn):
                ctx.fail("names", "clean_attributes(result, flags off given as %s) keeps names %s, expected %s" % (case.get("flagform", "bool"), tuple(q.names), tuple(qn)))
        check_invariants(ctx, q, "clean_attributes(result)")
    except Exception as e:
        ctx.unexpected_exception(e, "clean_attributes")
    # the constructed polynomial written into afterwards (what out= / copyto / item assignment do): a term whose coefficients have
    # all become zero is dropped by the next cleaning like any other, together with the names only it used
    nonconst = [i for i, e in enumerate(p.exponents.tolist()) if any(e)]
    if nonconst:
        try:
            i = nonconst[-1]
            p.values[str(p.keys[i])] = 0
            rows2 = [tuple(int(v) for v in r) for r in p.exponents.tolist()]
            keep2 = [r for r, a in zip(rows2, p.coefficients) if not any(r) or col_nonzero(a)] or [tuple([0] * len(p.names))]
            names2 = [n for j, n in enumerate(p.names) if any(r[j] for r in keep2)] or [p.names[0]]
            want2 = sorted(tuple(r[list(p.names).index(n)] for n in names2) for r in keep2)
            mp2 = M.to_model(p)
            q = numpoly.clean_attributes(p, retain_coefficients=False, retain_names=False)
            ctx.expect_model(q, mp2, "clean_attributes(result written into)")
            got2 = sorted(tuple(int(v) for v in r) for r in q.exponents.tolist())
            if tuple(q.names) != tuple(names2) or got2 != want2:
                ctx.fail("terms", "after zeroing term %s in place, clean_attributes keeps names %s rows %s, expected %s %s" % (rows2[i], tuple(q.names), got2, tuple(names2), want2))
        except Exception as e:
            ctx.unexpected_exception(e, "clean_attributes after an in-place write")


def body(ctx):
    return body_triple(ctx) if ctx.case["op"].startswith("triple") else body_rebuild(ctx)


def body_for(case):
    return body


def run_case(case: Dict) -> Dict:
    specs = case["operands"] if "operands" in case else [dict(case["triple"], kind="poly")]
    return H.simple_run_case(case, body, specs)


def gen_cases(tier: str, seed: int) -> List[Dict]:
    rng = random.Random(3000 + seed)
    quick = tier == "quick"
    lim = H.limits(tier)
    cases: List[Dict] = []
    n = 0

    def poly(prefix, names, shape, nterms, b, mode=None, share=None):
        exps = S.exps_for(len(names), 2, rng, nterms, include_const=rng.random() < 0.5)
        return S.make_poly_spec(prefix, names, exps, shape, rng, b, mode=mode or rng.choice(["raw", "clean"]), share_from=share)

    # 1. rebuild of inputs and of results of operations
    exprs = [0, ["add", 0, 1], ["sub", 0, 1], ["mul", 0, 1], ["neg", 0], ["pow", 0, 2], ["sub", ["mul", 0, 1], 1]]
    shapes = [((), ()), ((2,), ()), ((2,), (2,)), ((1, 2), (2, 1)), ((2, 2), (2,))]
    reps = 8 if quick else 900
    for _ in range(reps):
        for ex in exprs:
            s1, s2 = rng.choice(shapes)
            n1, n2 = rng.choice([(("q0",), ("q0",)), (("q0", "q1"), ("q1",)), (("q2", "q10"), ("q0",)), (("q0", "q1"), ("q0", "q1"))])
            a = poly("a", n1, s1, rng.choice([1, 2, 3]), 3)
            b = poly("b", n2, s2, rng.choice([1, 2]), 2, share=S.spec_atoms(a) or None)
            n += 1
            cases.append({"id": "%s-%03d-rebuild" % (PROP, n), "op": "rebuild", "operands": [a, b], "expr": ex, "limits": lim})
    # 1b. polynomials that do not use their leading indeterminate (q0 declared, only q1/q2 occur)
    for shape in [(), (2,)]:
        for names, exps in [(("q0", "q1"), [[0, 1], [0, 2]]), (("q0", "q1", "q2"), [[0, 1, 0], [0, 0, 2], [0, 1, 1]])]:
            a = S.make_poly_spec("a", names, exps, shape, rng, 3, zero_prob=0.0, literal_prob=0.3, mode="raw")
            n += 1
            cases.append({"id": "%s-%03d-rebuild-unusedlead" % (PROP, n), "op": "rebuild", "operands": [a, a], "expr": 0, "limits": lim})
    # 1b'. strided views incl. layouts whose axis permutation is not its own inverse (3-d rotated, 4-d reversed)
    for shape, view in [((2, 3), "T"), ((2, 3, 2), "cyc"), ((3, 2, 2), "cyc"), ((2, 1, 3, 2), "T"), ((2, 3, 3, 2), "T"), ((2, 2, 3), "swap"), ((2, 3, 2, 2), "cyc")]:
        a = S.make_poly_spec("a", ("q0", "q1"), [[0, 0], [1, 0], [0, 2]], shape, rng, 3, zero_prob=0.0, literal_prob=1.0, mode="raw")
        k = 0
        for col in a["slots"]:  # every element distinct (a permutation of positions must show)
            for i in range(len(col)):
                k += 1
                col[i] = k
        a["view"] = view
        n += 1
        cases.append({"id": "%s-%03d-rebuild-view" % (PROP, n), "op": "rebuild", "operands": [a, a], "expr": 0, "limits": lim})
    # 1c. exponents whose storage-key character is special to str methods (digits, whitespace, control, combining characters):
    # any text-level shortcut on field names (isdigit, strip, split, isprintable ...) must not lose or merge such terms
    import unicodedata

    special = [e for e in range(0, 3000) if (lambda ch: ch.isdigit() or ch.isspace() or ch.isnumeric() or not ch.isprintable() or unicodedata.combining(ch))(chr(e + 59))]
    picks = sorted(set(rng.sample(special, 6 if quick else 60) + [e for e in (119, 120, 126) if e in special][:2]))
    for e in picks:
        a = S.make_poly_spec("a", ("q0", "q1"), [[e, 0], [1, 1], [e, e]], rng.choice([(), (2,)]), rng, 3, zero_prob=0.0, literal_prob=0.3, mode="raw")
        n += 1
        cases.append({"id": "%s-%03d-rebuild-specialkey" % (PROP, n), "op": "rebuild", "operands": [a, a], "expr": 0, "limits": lim})
    # 2. attribute triples: redundant zero columns, unused names, unsorted rows, duplicates x retain flags
    triples = []
    base = [
        (("q0", "q1"), [[1, 0], [0, 0], [0, 1]]),
        (("q0", "q1"), [[0, 2], [2, 0]]),
        (("q0", "q1", "q2"), [[0, 0, 0], [1, 0, 0], [0, 0, 1]]),
        (("q2", "q10"), [[1, 1], [0, 1], [0, 0]]),
        (("q0", "q1"), [[0, 1], [0, 1]]),  # duplicate rows
        (("q0", "q0"), [[0, 1], [1, 0]]),  # duplicate names
        (("q0", "q1"), [[1, 1], [1, 0], [1, 1]]),  # duplicate rows (may or may not survive cleaning)
        (("q1",), [[3], [1], [2], [0]]),
    ]
    treps = 2 if quick else 25
    extra = []
    for _ in range(0 if quick else 60):  # seeded random attribute triples (unsorted rows, possible duplicates)
        nm = rng.choice([("q0",), ("q0", "q1"), ("q1", "q2"), ("q0", "q1", "q2"), ("q2", "q10")])
        rows = [[rng.randrange(3) for _ in nm] for _ in range(rng.choice([1, 2, 3, 4]))]
        extra.append((nm, rows))
    for names, exps in (base * treps) + extra:
        for shape in [(), (2,)] if quick else [(), (2,), (1, 2)]:
            for rc, rn in itertools.product([False, True], repeat=2):
                sp = S.make_poly_spec("a", names, exps, shape, rng, 4, zero_prob=0.3, literal_prob=0.1)
                n += 1
                c = {"id": "%s-%03d-triple" % (PROP, n), "op": "triple", "triple": {k: sp[k] for k in ("names", "exps", "shape", "slots")},
                     "retain_coefficients": rc, "retain_names": rn, "via": rng.choice(["from_attributes", "ndpoly.from_attributes"]), "limits": lim}
                cases.append(c)
                # the explicit flags must win over whatever the global options say
                n += 1
                cases.append(dict(c, id="%s-%03d-triple-globalopts" % (PROP, n), options={"retain_coefficients": not rc, "retain_names": not rn}))
                if rng.random() < 0.5:
                    # the flags as numpy booleans / integers / 0-d arrays (what a comparison or numpy.any hands over), against opposite globals
                    n += 1
                    cases.append(dict(c, id="%s-%03d-triple-flagform" % (PROP, n), flagform=rng.choice(["numpy", "int", "array0d"]), options={"retain_coefficients": not rc, "retain_names": not rn}))
    return cases


def main(argv=None) -> int:
    return H.simple_main(
        PROP, MOD, gen_cases,
        rule="one case = (operation result to regenerate | attribute triple x retain flags); non-trivial = >= 2 feasible paths",
        bounds={"shapes": "0-d..2-d", "terms": "<= 4", "rebuild_routes": 6, "retain_flag_settings": 4,
                "also": "structural invariants are asserted on every result of the C01/C04/C06/C09/C10 drivers",
                "outside": "coefficient dtype equality beyond the object carrier (C12)"},
        functions=["numpoly.polynomial_from_attributes", "numpoly.clean_attributes", "numpoly.construct.clean.postprocess_attributes",
                   "remove_redundant_coefficients", "remove_redundant_names", "numpoly.polynomial", "numpoly.aspolynomial", "ndpoly.todict/values/exponents/coefficients"],
        argv=argv,
    )


if __name__ == "__main__":
    sys.exit(main())
