"""C12 — coefficient values survive every dtype; no uninitialised memory is returned (E2/K1 + E1/S7).

Part A (kernel level).  The write kernels copy raw bytes.  Their dispatch table (source dtype -> C type of the memoryview and
of the store pointer) is read from cvalues.pyx.  Every public constructor / cast / arithmetic entry point is executed once per
dtype configuration (14 dtypes, 14x14 ordered pairs) with a recording wrapper on the kernel entry points (trace extraction);
for every recorded kernel call (source dtype T, field dtype D) z3 decides over ALL coefficient bit patterns and ALL initial
heap contents whether the field can end up different from numpy's cast T->D of the coefficient (unwritten field, store wider
or narrower than the field, raw bits instead of a cast).  The same executions are replayed with every fresh polynomial buffer
poisoned with 0xA5 and compared with numpy's own cast / promoted arithmetic on the plain arrays.

Part B (Python level).  The E1 operation catalogue runs with Havoc-filled fresh buffers (S7): a result coefficient that still
contains a Havoc atom, or a branch on one, is a read of memory the operation never wrote — for every input value.  Focus on
results whose terms all cancel, are filtered away or are empty."""
from __future__ import annotations

import importlib
import itertools
import random
import re
import sys
import time
from typing import Any, Dict, List, Tuple

import numpy
import z3

from .. import harness as H
from .. import structures as S

PROP = "C12"
MOD = "nv.checks.c12"
DTYPES = ["bool", "int8", "int16", "int32", "int64", "uint8", "uint16", "uint32", "uint64", "float16", "float32", "float64", "complex64", "complex128"]
CSIZE = {"uint8_t": 1, "uint32_t": 4, "int64_t": 8, "double": 8, "complex": 16}
CKIND = {"uint8_t": "u", "uint32_t": "u", "int64_t": "i", "double": "f", "complex": "c"}
SOURCES = ["c01", "c03", "c04", "c06", "c09", "c10", "c19"]


# ----------------------------------------------------------------------------- kernel table from the .pyx text
def kernel_table() -> Dict[str, Any]:
    import os

    pyx = open(os.environ.get("NV_REPO", "/repo") + "/numpoly/cfunctions/cvalues.pyx").read()
    funcs = {}
    for m in re.finditer(r"cdef void (c(?:set|add)_(\w+)_values_1d)\(\s*(\w+) \[::1\] coeffs.*?cdef (\w+) \*value_ptr.*?value_ptr\[0\] (\+?=) coeffs\[i\]", pyx, re.S):
        funcs[m.group(1)] = {"memview": m.group(3), "ptr": m.group(4), "op": m.group(5)}
    table = {}
    for kind in ("cset", "cadd"):
        body = re.search(r"cpdef %s_values\((.*?)(?=\ncdef |\ncpdef |\Z)" % kind, pyx, re.S)
        disp = {}
        silent_else = True
        if body:
            for m in re.finditer(r"coeffs\.dtype == np\.(\w+):\s*\n\s*(\w+)\(coeffs, name, out\)", body.group(1)):
                disp[str(numpy.dtype(getattr(numpy, m.group(1))))] = m.group(2)
            silent_else = "raise" not in body.group(1)
        table[kind] = {"dispatch": disp, "silent_else": silent_else}
    return {"functions": funcs, **table}


def kernel_obligation(T: str, D: str, table, kind="cset") -> Dict:
    """z3: after the kernel call with a coefficient of dtype T into a field of dtype D, can the field differ from
    numpy's cast(T->D)(coefficient) for some coefficient bits / initial heap?"""
    disp = table[kind]["dispatch"]
    dT, dD = numpy.dtype(T), numpy.dtype(D)
    heap = z3.BitVec("heap", 8 * dD.itemsize)  # initial field contents (arbitrary garbage)
    coef = z3.BitVec("coef", 8 * dT.itemsize)
    s = z3.Solver()
    s.set("timeout", 20000)
    if T not in disp:
        # no branch: nothing is written (and no error is raised): field == heap; cast target is some function of coef
        want = z3.BitVec("cast", 8 * dD.itemsize)
        s.add(heap != want)
        return {"result": str(s.check()), "why": "no kernel branch for source dtype %s: the field keeps its previous (uninitialised) bytes" % T}
    f = table["functions"][disp[T]]
    w = CSIZE[f["ptr"]]
    if CSIZE[f["memview"]] != dT.itemsize or CKIND[f["memview"]] != ({"b": "u"}.get(dT.kind, dT.kind)):
        return {"result": "sat", "why": "memoryview C type %s does not match source dtype %s" % (f["memview"], T)}
    if w != dD.itemsize:
        return {"result": "sat", "why": "the kernel stores %d bytes into a %d-byte field (%s)" % (w, dD.itemsize, "overruns the neighbouring field" if w > dD.itemsize else "leaves part of the field unwritten")}
    if T != D:
        # same width, different type: raw bits vs numpy's cast -- differ e.g. for the value 1
        s.add(coef == 1)
        return {"result": "sat", "why": "raw %s bits are stored in a %s field instead of the cast value" % (T, D)}
    field = coef  # raw copy of the same type and width
    s.add(field != coef)
    return {"result": str(s.check()), "why": "raw copy of identical type"}


# ----------------------------------------------------------------------------- entry points x dtype configurations
def sample(T: str, n=3, variant: int = 0):
    dt = numpy.dtype(T)
    if variant == 2:
        # values whose products and sums round in the type (and, for complex types, conjugate-like pairs)
        if dt.kind in "biu":
            return numpy.array([3, 1, 7][:n], dtype=dt)
        if dt.kind == "f":
            return numpy.array([0.1, 1 / 3.0, 0.7][:n], dtype=dt)
        return numpy.array([0.1 + 0.2j, 0.3 - 0.7j, 0.1 + 0.7j][:n], dtype=dt)
    if variant == 1:
        # the edges of the dtype: extreme integers; smallest subnormal, half the smallest normal and the largest finite float
        if dt.kind == "b":
            return numpy.array([False, True, True][:n], dtype=dt)
        if dt.kind in "iu":
            info = numpy.iinfo(dt)
            return numpy.array([info.max, info.min, info.max - 1][:n], dtype=dt)
        fi = numpy.finfo(dt)
        vals = [float(fi.smallest_subnormal), -float(fi.tiny) / 2, float(fi.max)]
        if dt.kind == "c":
            return numpy.array([complex(vals[0], -vals[0]), complex(0.0, vals[1]), complex(vals[2], 0.0)][:n], dtype=dt)
        return numpy.array(vals[:n], dtype=dt)
    if dt.kind == "b":
        return numpy.array([True, False, True][:n], dtype=dt)
    if dt.kind == "u":
        return numpy.array([3, 0, 7][:n], dtype=dt)
    if dt.kind == "i":
        return numpy.array([3, -2, 7][:n], dtype=dt)
    if dt.kind == "f":
        return numpy.array([1.5, -2.25, 7.0][:n], dtype=dt)
    return numpy.array([1.5 + 2j, -2.25j, 7.0][:n], dtype=dt)


def _lin(T: str, variant: int = 0):
    """Coefficient array of the non-constant term: ones; in the edge variant values that are *all* subnormal (floats) / extreme (ints),
    so that a term made of nothing but such values must survive cleaning."""
    dt = numpy.dtype(T)
    if variant == 2 and dt.kind in "fc":
        return numpy.array([0.7, 0.1, 1 / 3.0], dtype=dt) if dt.kind == "f" else numpy.array([0.3 - 0.7j, 0.1 - 0.7j, 0.2 + 0.1j], dtype=dt)
    if variant in (0, 2) or dt.kind == "b":
        return numpy.ones(3, dtype=dt)
    if dt.kind in "iu":
        info = numpy.iinfo(dt)
        return numpy.array([1, info.max, info.min if info.min else 2], dtype=dt)
    fi = numpy.finfo(dt)
    s = float(fi.smallest_subnormal)
    vals = [s, -3 * s, float(fi.tiny) / 2]
    if dt.kind == "c":
        return numpy.array([complex(vals[0], 0), complex(0, vals[1]), complex(vals[2], -vals[0])], dtype=dt)
    return numpy.array(vals, dtype=dt)


def _poly(T, arr_const, arr_lin):
    import numpoly

    return numpoly.polynomial_from_attributes([[0], [1]], [arr_const, arr_lin], names=("q0",), dtype=T)


def entry_points(T: str, D: str, variant: int = 0):
    """(label, thunk returning the polynomial, expected {exponent: ndarray in numpy's own dtype})."""
    import numpoly

    xT, yD = sample(T, variant=variant), sample(D, variant=variant)
    one = _lin(T, variant)
    eps: List[Tuple[str, Any, Any]] = []
    with numpy.errstate(all="ignore"):
        castTD = xT.astype(D)
    eps.append(("polynomial(x_T)", lambda: numpoly.polynomial(xT), {(0,): xT}))
    eps.append(("polynomial(x_T, dtype=D)", lambda: numpoly.polynomial(xT, dtype=D), {(0,): castTD}))
    eps.append(("aspolynomial(x_T, dtype=D)", lambda: numpoly.aspolynomial(xT, dtype=D), {(0,): castTD}))
    eps.append(("polynomial_from_attributes(dtype=D)", lambda: numpoly.polynomial_from_attributes([[0], [1]], [xT, one], names=("q0",), dtype=D), {(0,): castTD, (1,): one.astype(D)}))
    eps.append(("polynomial_from_attributes()", lambda: numpoly.polynomial_from_attributes([[0], [2]], [xT, one], names=("q0",)), {(0,): xT, (2,): one}))
    # ordering functions on constants of every dtype (unsigned types wrap under negation)
    with numpy.errstate(all="ignore"):
        if numpy.dtype(T).kind not in "c" and numpy.dtype(D).kind not in "c":
            eps.append(("minimum(x_T, y_D)", lambda: numpoly.minimum(numpoly.polynomial(xT), numpoly.polynomial(yD)), {(0,): numpy.minimum(xT, yD)}))
            eps.append(("maximum(x_T, y_D)", lambda: numpoly.maximum(numpoly.polynomial(xT), numpoly.polynomial(yD)), {(0,): numpy.maximum(xT, yD)}))
            z = numpy.zeros(3, dtype=D)
            eps.append(("minimum(x_T, 0_D)", lambda: numpoly.minimum(numpoly.polynomial(xT), numpoly.polynomial(z)), {(0,): numpy.minimum(xT, z)}))
    # heterogeneous coefficient dtypes and no dtype request: the polynomial takes the first coefficient's dtype and numpy's cast of the rest
    with numpy.errstate(all="ignore"):
        castDT = yD.astype(T)
    eps.append(("polynomial_from_attributes([x_T, y_D])", lambda: numpoly.polynomial_from_attributes([[0], [1]], [xT, yD], names=("q0",)), {(0,): xT, (1,): castDT}))
    eps.append(("polynomial({..: x_T, ..: y_D})", lambda: numpoly.polynomial({(0,): xT, (2,): yD}, names=("q0",)), {(0,): xT, (2,): castDT}))
    # lists / tuples whose elements have different types, with a dtype requested: numpy's own single cast of each element
    with numpy.errstate(all="ignore"):
        try:
            mixed = [xT[0].item(), yD[1].item(), xT[2].item()]
            want = numpy.array([numpy.asarray(v).astype(D) for v in (xT[0], yD[1], xT[2])], dtype=D) if variant == 0 else None
            if want is not None and all(isinstance(v, (int, float, bool)) for v in mixed):
                eps.append(("polynomial([x_T, y_D, x_T] as python numbers, dtype=D)", lambda: numpoly.polynomial(mixed, dtype=D), {(0,): numpy.array([numpy.array(v).astype(D) for v in mixed], dtype=D)}))
            if variant == 0:
                eps.append(("polynomial((p_T, p_D) tuple of polynomials, dtype=D)", lambda: numpoly.polynomial((numpoly.polynomial(xT[0]), numpoly.polynomial(yD[1])), dtype=D),
                            {(0,): numpy.array([xT[:1].astype(D)[0], yD[1:2].astype(D)[0]], dtype=D)}))
            if variant == 1 and numpy.dtype(T).kind in "iu" and numpy.dtype(T).itemsize == 8 and numpy.dtype(D).kind == "f":
                # the same with whole rows that are polynomial arrays (1-d), next to a row of the other type
                bigrow = numpy.array([2 ** 62 + 1, 2 ** 53 + 1, 3], dtype=T)
                frow = numpy.array([0.5, 1.0, -2.0], dtype=D)
                with numpy.errstate(all="ignore"):
                    wantrows = numpy.array([bigrow, frow.astype(T)], dtype=T)
                eps.append(("polynomial([row_T polynomial, row_D polynomial], dtype=T)", lambda: numpoly.polynomial([numpoly.polynomial(bigrow), numpoly.polynomial(frow)], dtype=T), {(0,): wantrows}))
                eps.append(("polynomial((row_T polynomial, row_D array), dtype=T)", lambda: numpoly.polynomial((numpoly.polynomial(bigrow), frow), dtype=T), {(0,): wantrows}))
                # 64-bit integers next to floats, an integer type requested: each element is cast once (no detour through the
                # common float type, which cannot hold 2**53+1)
                big = 2 ** 53 + 1
                eps.append(("polynomial([2**53+1, 1.5], dtype=T)", lambda: numpoly.polynomial([big, 1.5], dtype=T), {(0,): numpy.array([big, 1], dtype=T)}))
                eps.append(("polynomial((p_T(2**53+1), p_D(1.5)), dtype=T)", lambda: numpoly.polynomial((numpoly.polynomial(numpy.array(big, dtype=T)), numpoly.polynomial(numpy.array(1.5, dtype=D))), dtype=T),
                            {(0,): numpy.array([big, 1], dtype=T)}))
        except (TypeError, ValueError, OverflowError):
            pass
    if T == D:
        eps.append(("variable(dtype=D)", lambda: numpoly.variable(2, dtype=D), {(1, 0): numpy.array([1, 0], dtype=D), (0, 1): numpy.array([0, 1], dtype=D)}))
        eps.append(("symbols(dtype=D)", lambda: numpoly.symbols("q0 q1", dtype=D), {(1, 0): numpy.array([1, 0], dtype=D), (0, 1): numpy.array([0, 1], dtype=D)}))
        eps.append(("index", lambda: _poly(T, xT, one)[1:], {(0,): xT[1:], (1,): one[1:]}))
        eps.append(("reshape", lambda: numpoly.reshape(_poly(T, xT, one), (3, 1)), {(0,): xT.reshape(3, 1), (1,): one.reshape(3, 1)}))
        eps.append(("transpose", lambda: numpoly.transpose(numpoly.reshape(_poly(T, xT, one), (1, 3))), {(0,): xT.reshape(3, 1), (1,): one.reshape(3, 1)}))
        eps.append(("full", lambda: numpoly.full((2,), _poly(T, xT[:1], one[:1])[0]), {(0,): numpy.full((2,), xT[0]), (1,): numpy.full((2,), one[0])}))
    eps.append(("astype(D)", lambda: _poly(T, xT, one).astype(D), {(0,): castTD, (1,): one.astype(D)}))
    # a dtype requested together with other keywords that change nothing (the polynomial's own names, in every accepted form)
    for nlabel, nm in (("names=p.names", lambda p: p.names), ("names=list", lambda p: list(p.names)), ("names=p.indeterminants", lambda p: p.indeterminants), ("names='q0'", lambda p: "q0")):
        eps.append(("aspolynomial(p_T, %s, dtype=D)" % nlabel, lambda nm=nm: (lambda p: numpoly.aspolynomial(p, names=nm(p), dtype=D))(_poly(T, xT, one)), {(0,): castTD, (1,): one.astype(D)}))
    eps.append(("polynomial(p_T, names=p.names, dtype=D)", lambda: (lambda p: numpoly.polynomial(p, names=p.names, dtype=D))(_poly(T, xT, one)), {(0,): castTD, (1,): one.astype(D)}))
    # the raw structured storage as input (documented input kind) with a dtype requested
    eps.append(("polynomial(p_T.values, names, dtype=D)", lambda: (lambda p: numpoly.polynomial(p.values, names=p.names, dtype=D))(_poly(T, xT, one)), {(0,): castTD, (1,): one.astype(D)}))
    eps.append(("aspolynomial(p_T.values, names, dtype=D)", lambda: (lambda p: numpoly.aspolynomial(p.values, names=p.names, dtype=D))(_poly(T, xT, one)), {(0,): castTD, (1,): one.astype(D)}))
    eps.append(("aspolynomial(p_T, dtype=D)", lambda: numpoly.aspolynomial(_poly(T, xT, one), dtype=D), {(0,): castTD, (1,): one.astype(D)}))
    # arithmetic between dtypes: numpy's promoted dtype and values on the raw arrays
    oneD = _lin(D, variant)
    with numpy.errstate(all="ignore"):
        try:
            eps.append(("p_T + p_D", lambda: _poly(T, xT, one) + _poly(D, yD, oneD), {(0,): xT + yD, (1,): one + oneD}))
        except TypeError:
            pass
        if not (numpy.dtype(T).kind == "b" and numpy.dtype(D).kind == "b"):
            try:
                eps.append(("p_T - p_D", lambda: _poly(T, xT, one) - _poly(D, yD, oneD), {(0,): xT - yD, (1,): one - oneD}))
            except TypeError:
                pass
        try:
            eps.append(("p_T * p_D", lambda: _poly(T, xT, one) * _poly(D, yD, oneD), {(0,): xT * yD, (1,): xT * oneD + one * yD, (2,): one * oneD}))
        except TypeError:
            pass
        if T == D:
            eps.append(("p_T ** 2", lambda: _poly(T, xT, one) ** 2, {(0,): xT * xT, (1,): xT * one + one * xT, (2,): one * one}))
    return eps


def run_entry(label, thunk, expected) -> Tuple[List[str], List[Tuple[str, str, str]]]:
    """Run one entry point with recording wrappers + 0xA5 poison; return (problems, recorded kernel calls)."""
    import numpoly

    H._poison_install()
    calls: List[Tuple[str, str, str]] = []
    real = {k: getattr(numpoly, k) for k in ("cset_values", "cadd_values")}

    def rec(kind):
        def f(coeffs, name, out):
            calls.append((kind, str(coeffs.dtype), str(out.dtype[name])))
            return real["c%s_values" % kind](coeffs, name, out)

        return f

    numpoly.cset_values, numpoly.cadd_values = rec("set"), rec("add")
    problems: List[str] = []
    try:
        with numpy.errstate(all="ignore"):
            r = thunk()
            if not getattr(run_entry, "_second", False):
                # the caller overwrites what it was handed, then asks again: the answer must be computed from the inputs again
                H.scribble([r])
                r = thunk()
        got = {tuple(int(v) for v in e): numpy.asarray(c) for e, c in zip(r.exponents.tolist(), r.coefficients)}
        any_exp = next(iter(expected.values()))
        if r.dtype != any_exp.dtype:
            problems.append("%s: coefficient dtype %s, numpy gives %s" % (label, r.dtype, any_exp.dtype))
        for e, want in expected.items():
            have = got.get(e)
            if have is None:
                if numpy.any(want != 0):
                    problems.append("%s: term %s missing (expected %s)" % (label, e, want.tolist()))
                continue
            if have.shape != want.shape or not numpy.array_equal(have.astype(want.dtype), want, equal_nan=True) if want.dtype.kind in "fc" else (have.shape != want.shape or not numpy.array_equal(have.astype(want.dtype), want)):
                problems.append("%s: term %s has coefficients %s (%s), numpy gives %s (%s)" % (label, e, have.tolist(), have.dtype, want.tolist(), want.dtype))
        for e, have in got.items():
            if e not in expected and numpy.any(have != 0):
                problems.append("%s: unexpected non-zero term %s = %s" % (label, e, have.tolist()))
    except Exception as ex:
        problems.append("%s: raises %s: %s" % (label, type(ex).__name__, str(ex)[:80]))
    finally:
        numpoly.cset_values, numpoly.cadd_values = real["cset_values"], real["cadd_values"]
    return problems, calls


def run_dtype_pair(case: Dict) -> Dict:
    t0 = time.time()
    T, D = case["T"], case["D"]
    table = kernel_table()
    confirmed, log = [], []
    nq = 0
    solver_s = 0.0
    try:
        eps = entry_points(T, D, case.get("variant", 0))
    except Exception as e:
        return {"case": case, "harness_error": "entry_points: %s: %s" % (type(e).__name__, e), "paths": 0}
    for label, thunk, expected in eps:
        problems, calls = run_entry(label, thunk, expected)
        obligations = []
        for kind, tc, dc in sorted(set(calls)):
            q0 = time.time()
            ob = kernel_obligation(tc, dc, table, "c" + kind)
            solver_s += time.time() - q0
            nq += 1
            obligations.append({"call": "c%s_values(%s -> field %s)" % (kind, tc, dc), **ob})
            if ob["result"] != "unsat":
                # a kernel call that is not a faithful copy: it is a violation only if the native run shows it (replay)
                if problems:
                    confirmed.append({"kind": "dtype", "op": label, "detail": "%s with (T=%s, D=%s): kernel call %s: %s; natively: %s" % (label, T, D, obligations[-1]["call"], ob["why"], problems[0]),
                                      "signature": "dtype|%s|%s" % (label, ob["why"][:40]), "values": {}, "preconfirmed": True})
        if problems and not any(o["result"] != "unsat" for o in obligations):
            confirmed.append({"kind": "dtype", "op": label, "detail": "%s with (T=%s, D=%s): %s" % (label, T, D, problems[0]), "signature": "dtype|%s|python" % label, "values": {}, "preconfirmed": True})
        log.append({"entry": label, "kernel_calls": obligations[:4], "native_problems": problems[:2]})
    return {"case": case, "paths": len(eps), "exhausted": True, "nontrivial": True, "confirmed": confirmed, "unconfirmed": [], "raw_issues": len(confirmed), "path_log": log[:3],
            "stats": {"validity_queries": nq, "solver_s": solver_s, "decisions": len(eps)}, "fidelity_runs": len(eps), "wall_s": time.time() - t0}


# ----------------------------------------------------------------------------- Part B: havoc catalogue
def body(ctx: H.BaseCtx):
    src = ctx.case["src"]
    mod = importlib.import_module("nv.checks." + src)
    mod.body_for(ctx.case)(ctx)
    ctx.issues[:] = [i for i in ctx.issues if i.kind == "uninitialised"]


def own_body(ctx: H.BaseCtx):
    """Results with zero surviving terms / empty results."""
    import numpoly
    from .. import model as M

    case = ctx.case
    ops = [ctx.build(s) for s in case["operands"]]
    mops = [ctx.model(s) for s in case["operands"]]
    fn = case["fn"]
    a = ops[0]
    ma = mops[0]
    try:
        if fn == "cancel":
            ctx.expect_model(a - a, M.amap(lambda x: x - x, ma), "p - p")
            ctx.expect_model(a * 0, M.amap(lambda x: x * 0, ma), "p * 0")
            ctx.expect_model(numpoly.where(numpy.zeros(a.shape, dtype=bool), a, 0), M.amap(lambda x: x * 0, ma), "where(False, p, 0)")
        elif fn == "empty":
            for label, f, shape in (
                ("diff of one element", lambda: numpoly.diff(a[:1]), (0,)),
                ("ediff1d of one element", lambda: numpoly.ediff1d(a[:1]), (0,)),
                ("empty slice + 1", lambda: a[3:] + 1, (0,)),
                ("empty slice * p", lambda: a[3:] * a[:0], (0,)),
                ("sum of empty slice", lambda: numpoly.sum(a[3:]), ()),
                ("where on empty slices", lambda: numpoly.where(numpy.ones((0,), dtype=bool), a[3:], a[:0] + 1), (0,)),
                ("where(empty condition, empty, scalar)", lambda: numpoly.where(numpy.zeros((0,), dtype=bool), a[3:], a.ravel()[0]), (0,)),
                ("concatenate of empty slices", lambda: numpoly.concatenate([a[3:], a[:0]]), (0,)),
                ("empty slice ** 2", lambda: a[3:] ** 2, (0,)),
                ("negative of empty slice", lambda: -a[3:], (0,)),
                ("astype(own type) of empty slice", lambda: a[3:].astype(a.dtype), (0,)),
                ("empty slice indexed with ...", lambda: a[3:][...], (0,)),
                ("empty slice sliced again", lambda: a[3:][:1], (0,)),
                ("empty slice given a new axis", lambda: a[3:][:, None], (0, 1)),
                ("empty slice reshaped to (2, 0), then row 1", lambda: numpoly.reshape(a[3:], (2, 0))[1], (0,)),
            ) + (() if ctx.symbolic else (
                ("astype(float32) of empty slice", lambda: a[3:].astype("f4"), (0,)),
                ("astype(int8) of an empty (0, 3) array", lambda: numpoly.polynomial(numpy.zeros((0, 3), dtype="i8")).astype("i1"), (0, 3)),
                ("pickle round trip of empty slice", lambda: __import__("pickle").loads(__import__("pickle").dumps(a[3:])), (0,)),
            )):
                r = f()
                if tuple(r.shape) != shape:
                    ctx.fail("shape", "%s: shape %s, expected %s" % (label, tuple(r.shape), shape))
                elif shape == ():
                    ctx.expect_model(r, M.mp_array([M.MP()], ()), label)
        elif fn == "drop":
            r = numpoly.set_dimensions(a, 1)
            dropped = set(case["operands"][0]["names"][1:])
            ctx.expect_model(r, M.amap(lambda e: M.MP({m: c for m, c in e.terms.items() if not (dropped & {nm for nm, _ in m})}), ma), "set_dimensions")
            r2 = numpoly.full((2,), a.ravel()[0] - a.ravel()[0])
            ctx.expect_model(r2, M.mp_array([M.MP(), M.MP()], (2,)), "full(zero)")
        elif fn == "compose":
            r = numpoly.polynomial([a.ravel()[0], 0, a.ravel()[0] - a.ravel()[0]])
            items = M.flat_items(ma)
            ctx.expect_model(r, M.mp_array([items[0], M.MP(), M.MP()], (3,)), "polynomial([p, 0, p-p])")
    except Exception as e:
        ctx.unexpected_exception(e, fn)
    ctx.issues[:] = [i for i in ctx.issues if i.kind in ("uninitialised", "shape", "exception", "value")]


def body_for(case):
    return own_body if case.get("own") else body


def replay_case(case, values, rec):
    if case.get("part") == "A":
        r = run_dtype_pair(case)
        return [H.Issue(c["kind"], c["op"], c["detail"]) for c in r.get("confirmed", [])]
    return H.concrete_run_poisoned(body_for(case), case, values, case.get("options"))


def run_case(case: Dict) -> Dict:
    if case.get("part") == "A":
        return run_dtype_pair(case)
    if case.get("own"):
        return H.simple_run_case(case, own_body, case["operands"])
    specs = []
    specs += case.get("operands", []) or []
    for k in ("poly", "triple"):
        if case.get(k):
            v = dict(case[k])
            v.setdefault("kind", "poly")
            specs.append(v)
    return H.simple_run_case(case, body, specs)


def gen_cases(tier: str, seed: int) -> List[Dict]:
    rng = random.Random(12000 + seed)
    quick = tier == "quick"
    lim = H.limits(tier, quick=(400, 20.0), thorough=(4000, 120.0))
    cases: List[Dict] = []
    pairs = [(T, D) for T in DTYPES for D in DTYPES]
    if quick:
        diag = [(T, T) for T in DTYPES]
        rest = [p for p in pairs if p[0] != p[1]]
        special = [p for p in rest if "bool" in p or p[0].startswith("complex")]  # casts with non-obvious rules: always
        rest = [p for p in rest if p not in special]
        rng.shuffle(rest)
        pairs = diag + special + rest[:50]
    for T, D in pairs:
        cases.append({"id": "C12-A-%s-%s" % (T, D), "op": "dtype", "part": "A", "T": T, "D": D})
        cases.append({"id": "C12-A-%s-%s-edges" % (T, D), "op": "dtype", "part": "A", "T": T, "D": D, "variant": 1})
        if numpy.dtype(T).kind in "fc" and numpy.dtype(D).kind in "fc":
            cases.append({"id": "C12-A-%s-%s-inexact" % (T, D), "op": "dtype", "part": "A", "T": T, "D": D, "variant": 2})
    # Part B: catalogue under Havoc
    for src in SOURCES:
        mod = importlib.import_module("nv.checks." + src)
        cs = mod.gen_cases(tier, seed)
        rng.shuffle(cs)
        for c in cs[: (12 if quick else 80)]:
            c = dict(c)
            c["src"] = src
            c["id"] = "C12-B<" + c["id"]
            c["limits"] = lim
            cases.append(c)
    n = 0
    for shape in [(3,), (2, 2)]:
        for fn in ("cancel", "empty", "drop", "compose"):
            if fn == "empty" and len(shape) > 1:
                continue
            n += 1
            names = ("q0", "q1")
            exps = [[0, 1], [1, 1]] if fn == "drop" else [[0, 0], [1, 0], [0, 1]]
            cases.append({"id": "C12-B-%03d-%s" % (n, fn), "op": fn, "fn": fn, "own": True, "operands": [S.make_poly_spec("a", names, exps, shape, rng, 4, zero_prob=0.2, literal_prob=0.2, mode="raw")], "limits": lim})
    return cases


def main(argv=None) -> int:
    return H.simple_main(
        PROP, MOD, gen_cases,
        rule="one case = (A) one ordered dtype pair (T, D) through all constructor/cast/arithmetic/indexing entry points, each recorded kernel call decided by z3 over all coefficient bit patterns "
        "and heap contents | (B) one operation-catalogue entry executed with Havoc-filled fresh buffers; every case is non-trivial (>= 2 entry points or paths)",
        bounds={"A": "14 numeric dtypes; all 14 diagonal pairs + 70 sampled ordered pairs (quick) / all 196 (thorough); entry points: polynomial, aspolynomial, polynomial_from_attributes, variable, symbols, "
                "astype, + - * **, indexing, reshape/transpose/full; sample arrays of 3 values per dtype for the native poison run",
                "B": "sampled C01 C03 C04 C06 C09 C10 C19 catalogue + cancelling / empty / all-terms-dropped / composed results",
                "outside": "arithmetic values inside numpy's own ufunc loops for native dtypes (trusted); the compiled kernels are analysed from the .pyx text"},
        functions=["cvalues.pyx (dispatch table)", "numpoly.polynomial_from_attributes", "polynomial", "aspolynomial", "variable", "symbols", "ndpoly.astype", "add/subtract/multiply/power", "ndpoly.__new__ (poison / Havoc hook)",
                   "set_dimensions", "diff", "ediff1d", "full", "compose_polynomial_array"],
        assumptions=["numpy's own casts / promoted arithmetic on plain arrays are the reference", "S7: fresh ndpoly buffers are Havoc atoms (symbolic) / 0xA5 bytes (native)"],
        argv=argv,
    )


if __name__ == "__main__":
    sys.exit(main())
