"""C05 — polynomial division terminates and satisfies dividend = q*divisor + r (E1, rational atoms, S8)."""
from __future__ import annotations

import random
import sys
import time
from typing import Dict, List

import numpy
from fractions import Fraction

from .. import harness as H
from .. import model as M
from .. import structures as S
from ..common import check_invariants, snapshot_args, check_unmodified

PROP = "C05"
MOD = "nv.checks.c05"


ATOL = 1e-25  # literal coefficients below the library's 1e-30 cut-off may legitimately stay in the remainder


class IterationBound(Exception):
    """Unwinding assertion of the division loop (stub S8)."""


_STATE = {"count": 0, "cap": 10**9, "t_end": None, "installed": False}


def _install_loop_hook():
    """S8: observe the division loop through its candidate-selection function (harness-side)."""
    import sys as _sys

    mod = _sys.modules["numpoly.poly_function.divide.divmod"]
    if _STATE["installed"]:
        return
    real = mod.get_division_candidate

    def counted(*a, **k):
        _STATE["count"] += 1
        if _STATE["count"] > _STATE["cap"]:
            raise IterationBound("division loop exceeded %d iterations" % _STATE["cap"])
        if _STATE["t_end"] is not None and time.time() > _STATE["t_end"]:
            raise IterationBound("division loop exceeded its wall-clock guard after %d iterations" % _STATE["count"])
        return real(*a, **k)

    mod.get_division_candidate = counted
    _STATE["installed"] = True


def _unwind_bound(case) -> int:
    """Every iteration must strictly lower some element's leading monomial inside the exponent box of the
    dividend: (#monomials in the box + 1) per element and per divisor term is a generous unwinding bound."""
    box = 1
    for d in case["box"]:
        box *= d + 1
    return (box + 1) * max(1, case["size"]) * max(1, case["divisor_terms"]) + 2


def _degree(m: M.MP, name) -> int:
    return max([dict(mono).get(name, 0) for mono in m.terms] + [0])


def body_special(ctx: H.BaseCtx):
    """Native only: coefficients whose ratio overflows, infinities and nan.  Division must still *terminate* (S8 guard: 60
    iterations / 4 s); where quotient and remainder come back finite the identity must hold at sample points."""
    import numpoly

    if ctx.symbolic:
        return
    _install_loop_hook()
    q0, q1 = numpoly.variable(2)
    inf, nan = float("inf"), float("nan")
    pairs = [
        (1e300 * q0 ** 2, 1e-300 * q0), (1e200 * q0 ** 2 + q0, 1e-200 * q0 + 1), (inf * q0 ** 2, q0), (nan * q0, q0), (q0 ** 2, inf * q0),
        (numpoly.polynomial([1e300 * q0 ** 2, q0 ** 2 - 1]), numpoly.polynomial([1e-300 * q0, q0 + 1])), (q0 * q1 + 1e308, 1e-308 * q1 + q0), (q0 ** 3 + nan, q0 - 1), (1e308 * q0 ** 2 + 1e308 * q0, 0.5 * q0),
    ]
    empties = [(numpoly.polynomial(numpy.zeros((0,))), q0), (numpoly.polynomial(numpy.zeros((2, 0))) * q0, q0 + 1), (q0, numpoly.polynomial(numpy.ones((0,)))), (numpoly.polynomial(numpy.zeros((0, 2))), numpoly.polynomial([q0, 2.0]))]
    if ctx.case["k"] >= len(pairs):
        # arrays without elements: (q, r) of the broadcast (empty) shape, for every division function
        num, den = empties[(ctx.case["k"] - len(pairs)) % len(empties)]
        _shp = lambda x: tuple(getattr(x, "shape", ()))
        want = numpy.broadcast_shapes(_shp(num), _shp(den))
        for fname in ("poly_divmod", "poly_divide", "poly_remainder"):
            try:
                res = getattr(numpoly, fname)(num, den)
            except Exception as e:
                ctx.unexpected_exception(e, "%s on arrays of shapes %s, %s" % (fname, _shp(num), _shp(den)))
                continue
            for part in res if isinstance(res, tuple) else (res,):
                if tuple(part.shape) != tuple(want):
                    ctx.fail("shape", "%s on arrays of shapes %s, %s returns shape %s" % (fname, _shp(num), _shp(den), part.shape))
        return
    num, den = pairs[ctx.case["k"] % len(pairs)]
    _STATE["count"] = 0
    _STATE["cap"] = 60  # (these quotients have at most 3 terms per element)
    _STATE["t_end"] = time.time() + 4.0
    try:
        with numpy.errstate(all="ignore"):
            q, r = numpoly.poly_divmod(num, den)
    except IterationBound as e:
        ctx.fail("nontermination", "poly_divmod(%s, %s): %s" % (num, den, e))
        return
    except Exception as e:
        ctx.unexpected_exception(e, "poly_divmod (special values)")
        return
    finally:
        _STATE["cap"] = 10**9
        _STATE["t_end"] = None
    with numpy.errstate(all="ignore"):
        fin = all(numpy.all(numpy.isfinite(c)) for p_ in (q, r, numpoly.aspolynomial(num), numpoly.aspolynomial(den)) for c in p_.coefficients)
        if fin:
            for x, y in ((1.0, 1.0), (-1.0, 0.5), (0.5, -2.0)):
                lhs = numpy.asarray(numpoly.aspolynomial(num)(q0=x, q1=y), dtype=float)
                rhs = numpy.asarray((q * den + r)(q0=x, q1=y), dtype=float)
                if numpy.all(numpy.isfinite(lhs)) and numpy.all(numpy.isfinite(rhs)) and not numpy.allclose(lhs, rhs, rtol=1e-6, atol=0):
                    ctx.fail("value", "poly_divmod(%s, %s) = (%s, %s): q*divisor + r differs from the dividend at (%s, %s)" % (num, den, q, r, x, y))
                    break


def body(ctx: H.BaseCtx):
    import numpoly

    case = ctx.case
    if case.get("op") == "special":
        return body_special(ctx)
    _install_loop_hook()
    dspec = case["divisor"]
    divisor = ctx.build(dspec)
    mdiv = ctx.model(dspec)
    names = case["names"]
    if case.get("cofactor"):
        mcof = ctx.model(case["cofactor"])
        mdvd = M.amap(lambda a, b: a * b, mdiv, mcof)
        if case.get("extra"):
            mdvd = M.amap(lambda a, b: a + b, mdvd, ctx.model(case["extra"]))
        dividend = S.poly_from_model(mdvd, names, concrete=not ctx.symbolic)
    else:
        mcof = None
        dividend = ctx.build(case["dividend"])
        mdvd = ctx.model(case["dividend"])
    ops = [dividend, divisor]
    snap = snapshot_args(ops)
    _STATE["count"] = 0
    _STATE["cap"] = _unwind_bound(case) if ctx.symbolic else 400
    _STATE["t_end"] = None if ctx.symbolic else time.time() + 20.0
    try:
        q, r = numpoly.poly_divmod(dividend, divisor)
    except IterationBound as e:
        ctx.fail("nontermination", "poly_divmod: %s (unwinding assertion)" % e)
        return
    except Exception as e:
        ctx.unexpected_exception(e, "poly_divmod")
        check_unmodified(ctx, ops, snap)
        return
    finally:
        iters = _STATE["count"]
        _STATE["cap"] = 10**9
        _STATE["t_end"] = None
    rtol = None if ctx.symbolic else 1e-9
    bshape = numpy.broadcast_shapes(tuple(mdvd.shape), tuple(mdiv.shape))
    try:
        mq, mr = M.to_model(q), M.to_model(r)
    except Exception as e:
        ctx.fail("malformed", "cannot read (q, r): %s: %s" % (type(e).__name__, e))
        return
    if tuple(mq.shape) != tuple(bshape) or tuple(mr.shape) != tuple(bshape):
        ctx.fail("shape", "q/r shapes %s %s, expected %s" % (mq.shape, mr.shape, bshape))
        return
    b_dvd = numpy.broadcast_to(mdvd, bshape)
    b_div = numpy.broadcast_to(mdiv, bshape)
    # 1. the division identity
    recomposed = M.amap(lambda qq, dd, rr: qq * dd + rr, mq, b_div, mr)
    ctx.expect_model(recomposed, b_dvd, "identity q*divisor+r", rtol=rtol, atol=ATOL)
    n = len(M.flat_items(b_div))
    for i in range(n):
        di, qi, ri, ni = M.flat_items(b_div)[i], M.flat_items(mq)[i], M.flat_items(mr)[i], M.flat_items(b_dvd)[i]
        # 2. non-zero constant divisor: true quotient, zero remainder
        if di.is_const_syntactic():
            c = di.coeff(())
            if bool(c != 0):
                ctx.expect_model(M.mp_array([ri], ()), M.mp_array([M.MP()], ()), "remainder for constant divisor (element %d)" % i, rtol=rtol, atol=ATOL)
                ctx.expect_model(M.mp_array([qi], ()), M.mp_array([ni / c], ()), "quotient for constant divisor (element %d)" % i, rtol=rtol, atol=ATOL)
        # 3. exact multiple: remainder zero, quotient the cofactor (where the divisor is not the zero polynomial)
        if mcof is not None and not case.get("extra"):
            nonzero = any(bool(cf != 0) for cf in di.terms.values())
            if nonzero:
                ci = M.flat_items(numpy.broadcast_to(mcof, bshape))[i]
                ctx.expect_model(M.mp_array([ri], ()), M.mp_array([M.MP()], ()), "remainder of an exact multiple (element %d)" % i, rtol=rtol, atol=ATOL)
                ctx.expect_model(M.mp_array([qi], ()), M.mp_array([ci], ()), "cofactor of an exact multiple (element %d)" % i, rtol=rtol, atol=ATOL)
        # 4. one indeterminate: deg r < deg divisor (divisor's degree as decided on this path)
        if len(names) == 1:
            nm = names[0]
            ddeg = -1
            for mono, cf in sorted(di.terms.items(), key=lambda t: -dict(t[0]).get(nm, 0)):
                if bool(cf != 0):
                    ddeg = dict(mono).get(nm, 0)
                    break
            if ddeg >= 0:
                for mono, cf in ri.terms.items():
                    if dict(mono).get(nm, 0) >= ddeg:
                        if cf.is_const() and abs(cf.const_value()) <= Fraction(ATOL):
                            continue
                        z, wit = ctx.is_zero(cf, rtol=rtol, scale=None)
                        if not z:
                            ctx.fail("degree", "element %d: remainder has degree >= %d = deg(divisor)" % (i, ddeg), wit)
    # 4b. out= given (a pair of polynomial buffers that already hold terms of an earlier division): whatever the call does with
    # them, the pair it *returns* is a quotient and remainder of this division
    try:
        x_ = numpoly.symbols(names[0])
        stale = (5 * x_ ** 4 + 1, 2 * x_ ** 3 - x_)
        bufs = tuple(numpoly.align_polynomials(s_ + q * 0 + r * 0, dividend, divisor)[0].copy() for s_ in stale)
        try:
            oq, orr = numpoly.poly_divmod(dividend, divisor, out=bufs)
        except IterationBound:
            raise
        except Exception:
            oq = None  # refusing the buffers is allowed
        if oq is not None:
            ctx.expect_model(M.amap(lambda a_, b_, c_: a_ * b_ + c_, M.to_model(oq), b_div, M.to_model(orr)), b_dvd, "identity q*divisor+r for the pair returned with out= buffers", rtol=rtol, atol=ATOL)
    except IterationBound as e:
        ctx.fail("nontermination", "poly_divmod(out=): %s" % e)
        return
    except Exception as e:
        ctx.unexpected_exception(e, "poly_divmod(out=) driver")
    # 5. operator spellings return the same components (same path)
    try:
        spell = {
            "/": dividend / divisor,
            "%": dividend % divisor,
            "divmod": divmod(dividend, divisor),
            "poly_divide": numpoly.poly_divide(dividend, divisor),
            "poly_remainder": numpoly.poly_remainder(dividend, divisor),
        }
        if case.get("reflected"):
            arr = case["reflected"]
            left = numpy.asarray(arr)
            spell_r = {"r/": left / divisor, "r%": left % divisor, "rdivmod": divmod(left, divisor)}
            lq, lr = numpoly.poly_divmod(left, divisor)
            ctx.expect_model(spell_r["r/"], M.to_model(lq), "array / poly", rtol=rtol, atol=ATOL)
            ctx.expect_model(spell_r["r%"], M.to_model(lr), "array % poly", rtol=rtol, atol=ATOL)
            ctx.expect_model(spell_r["rdivmod"][0], M.to_model(lq), "divmod(array, poly)[0]", rtol=rtol, atol=ATOL)
            ctx.expect_model(spell_r["rdivmod"][1], M.to_model(lr), "divmod(array, poly)[1]", rtol=rtol, atol=ATOL)
    except IterationBound as e:
        ctx.fail("nontermination", "operator spelling: %s" % e)
        return
    except Exception as e:
        ctx.unexpected_exception(e, "operator spelling")
        return
    ctx.expect_model(spell["/"], mq, "poly / poly", rtol=rtol, atol=ATOL)
    ctx.expect_model(spell["poly_divide"], mq, "poly_divide", rtol=rtol, atol=ATOL)
    ctx.expect_model(spell["%"], mr, "poly % poly", rtol=rtol, atol=ATOL)
    ctx.expect_model(spell["poly_remainder"], mr, "poly_remainder", rtol=rtol, atol=ATOL)
    ctx.expect_model(spell["divmod"][0], mq, "divmod()[0]", rtol=rtol, atol=ATOL)
    ctx.expect_model(spell["divmod"][1], mr, "divmod()[1]", rtol=rtol, atol=ATOL)
    check_invariants(ctx, q, "quotient")
    check_invariants(ctx, r, "remainder")
    check_unmodified(ctx, ops, snap)


def body_for(case):
    return body


def run_case(case: Dict) -> Dict:
    specs = [case.get("divisor"), case.get("dividend"), case.get("cofactor"), case.get("extra")]
    rep = H.simple_run_case(case, body, specs)
    return rep


def _incomparable(exps) -> bool:
    for a in exps:
        for b in exps:
            if a != b and not all(x <= y for x, y in zip(a, b)) and not all(y <= x for x, y in zip(a, b)):
                return True
    return False


def gen_cases(tier: str, seed: int) -> List[Dict]:
    rng = random.Random(5000 + seed)
    quick = tier == "quick"
    lim = H.limits(tier, quick=(1500, 50.0), thorough=(20000, 400.0))
    cases: List[Dict] = []
    n = 0

    def add(tag, names, divisor, dividend=None, cofactor=None, extra=None, reflected=None):
        nonlocal n
        n += 1
        specs = [s for s in (dividend, cofactor, extra, divisor) if s]
        maxes = [0] * len(names)
        dd = [s for s in (dividend, extra) if s]
        for s in dd:
            for row in s["exps"]:
                maxes = [max(a, b) for a, b in zip(maxes, row)]
        if cofactor:
            cm = [max(r[i] for r in cofactor["exps"]) for i in range(len(names))]
            dm = [max(r[i] for r in divisor["exps"]) for i in range(len(names))]
            maxes = [max(m, a + b) for m, a, b in zip(maxes, cm, dm)]
        size = max(S.size_of(tuple(s["shape"])) for s in specs)
        cases.append(
            {
                "id": "%s-%03d-%s" % (PROP, n, tag), "op": "divmod", "names": list(names), "divisor": divisor, "dividend": dividend, "cofactor": cofactor, "extra": extra,
                "reflected": reflected, "box": maxes, "size": size, "divisor_terms": len(divisor["exps"]), "incomparable": _incomparable(divisor["exps"]), "limits": lim,
            }
        )

    def spec(prefix, names, exps, shape, atoms, zero=0.0, lit=0.25):
        return S.make_poly_spec(prefix, names, exps, shape, rng, atoms, zero_prob=zero, literal_prob=lit, mode="raw")

    A = 2 if quick else 3
    # univariate: deg <= 3 by deg <= 2
    uni_dvd = [[[0], [1]], [[0], [1], [2]], [[1], [3]], [[0], [1], [2], [3]], [[2]]]
    uni_div = [[[1]], [[0], [1]], [[0], [2]], [[0], [1], [2]], [[0]], [[2]]]
    for de in uni_dvd:
        for dv in uni_div:
            if quick and rng.random() < 0.45:
                continue
            add("uni", ("q0",), spec("d", ("q0",), dv, (), A), dividend=spec("n", ("q0",), de, (), A))
    # exact multiples (symbolic cofactor), univariate and bivariate
    for dv, cf in [([[0], [1]], [[0], [1]]), ([[1]], [[0], [2]]), ([[0], [2]], [[1]]), ([[0], [1], [2]], [[0], [1]])]:
        add("uni-multiple", ("q0",), spec("d", ("q0",), dv, (), A), cofactor=spec("c", ("q0",), cf, (), A))
    add("uni-multiple-plus", ("q0",), spec("d", ("q0",), [[0], [2]], (), A), cofactor=spec("c", ("q0",), [[1]], (), 1), extra=spec("e", ("q0",), [[0], [1]], (), 2))
    for dv, cf in [([[1, 0]], [[0, 1], [1, 0]]), ([[0, 0], [1, 0]], [[0, 1]]), ([[1, 1]], [[1, 0], [0, 0]])]:
        add("bi-multiple", ("q0", "q1"), spec("d", ("q0", "q1"), dv, (), A), cofactor=spec("c", ("q0", "q1"), cf, (), A))
    # constant divisors (number, symbolic), arrays
    add("const", ("q0", "q1"), spec("d", ("q0", "q1"), [[0, 0]], (), 1, lit=0.0), dividend=spec("n", ("q0", "q1"), [[0, 0], [1, 0], [0, 2]], (), 3))
    add("const-arr", ("q0",), spec("d", ("q0",), [[0]], (2,), 2, lit=0.0), dividend=spec("n", ("q0",), [[0], [1], [2]], (2,), 3))
    # arrays whose elements have different leading terms / zero entries; broadcasting
    add("arr-mixed-lead", ("q0",), S.make_poly_spec("d", ("q0",), [[0], [1]], (2,), rng, 2, zero_prob=0.0, literal_prob=0.0, mode="raw") | {"slots": [["d0", 2], ["d1", 0]]},
        dividend=spec("n", ("q0",), [[0], [1], [2]], (), 2))
    add("arr-mixed-lead2", ("q0",), {"kind": "poly", "names": ["q0"], "exps": [[0], [1], [2]], "shape": [3], "slots": [[-1, 4, 1], [0, 0, 2], ["d0", 0, 0]], "mode": "raw"},
        dividend=spec("n", ("q0",), [[0], [1], [2]], (), 2))
    add("bcast", ("q0",), spec("d", ("q0",), [[0], [1]], (1,), 2), dividend=spec("n", ("q0",), [[0], [2]], (2,), 2))
    add("zero-dividend-entry", ("q0",), spec("d", ("q0",), [[0], [1]], (2,), 2), dividend=S.make_poly_spec("n", ("q0",), [[1], [2]], (2,), rng, 2, zero_prob=0.5, literal_prob=0.0, mode="raw"))
    # one element with a coefficient below the 1e-30 cut-off next to elements of ordinary size (literal, so no assumption is needed)
    tiny = 3e-31
    add("arr-tiny", ("q0",), spec("d", ("q0",), [[0], [1]], (), 1, lit=0.5),
        dividend={"kind": "poly", "names": ["q0"], "exps": [[0], [2], [3]], "shape": [2], "slots": [[0, "n0"], [tiny, 0], [0, "n1"]], "mode": "raw", "dtype": "float64"})
    add("arr-tiny-const", ("q0",), {"kind": "poly", "names": ["q0"], "exps": [[0]], "shape": [], "slots": [[2]], "mode": "raw"},
        dividend={"kind": "poly", "names": ["q0"], "exps": [[0], [1]], "shape": [2], "slots": [[0, "n0"], [1e-31, "n1"]], "mode": "raw", "dtype": "float64"})
    # reflected operators: array on the left
    add("reflected", ("q0",), spec("d", ("q0",), [[0], [1]], (2,), 2), dividend=spec("n", ("q0",), [[0], [2]], (2,), 2), reflected=[3, 5])
    add("reflected0d", ("q0",), spec("d", ("q0",), [[0]], (), 1, lit=0.0), dividend=spec("n", ("q0",), [[0], [1]], (), 2), reflected=7)
    # multivariate, total degree <= 2, comparable top terms
    multi = [
        (("q0", "q1"), [[1, 0]], [[1, 1], [2, 0], [0, 1]]),
        (("q0", "q1"), [[0, 1], [0, 0]], [[0, 2], [1, 1], [0, 0]]),
        (("q0", "q1"), [[1, 1]], [[1, 1], [2, 1], [0, 0]]),
        (("q0", "q1", "q2"), [[0, 0, 1]], [[1, 0, 1], [0, 1, 1], [0, 0, 0]]),
    ]
    for names, dv, de in multi:
        add("multi", names, spec("d", names, dv, (), A), dividend=spec("n", names, de, (), A))
    # indeterminates whose names sort differently as text and by index (q2, q10), the operands declaring different subsets
    for names, dnames, dv, de in [
        (("q0", "q2", "q10"), ("q10",), [[1], [0]], [[1, 0, 1], [0, 1, 1], [0, 0, 0]]),
        (("q0", "q2", "q10"), ("q0", "q10"), [[1, 1], [0, 0]], [[2, 1, 1], [1, 0, 2], [0, 1, 0]]),
        (("q2", "q10"), ("q2",), [[1]], [[1, 1], [2, 0], [0, 1]]),
        (("q9", "q10", "q11"), ("q10", "q11"), [[1, 0], [0, 1]], [[0, 1, 1], [1, 0, 0]]),
    ]:
        add("multi-names", names, spec("d", dnames, dv, (), 1, lit=0.75), dividend=spec("n", names, de, (), 2))
    # leading-coefficient ratios that floating point cannot represent ((1/49)*49 != 1): natively the eliminated term leaves a
    # rounding residue behind unless it is cleared, over operands that do / do not declare the default indeterminate q0
    for names in (("q1",), ("q0",), ("q2", "q10"), ("q10", "q11")):
        for lead in (49, 98, 103):
            nn = len(names)
            dv = {"kind": "poly", "names": list(names), "exps": [[1] + [0] * (nn - 1), [0] * nn], "shape": [], "slots": [[lead], [1]], "mode": "raw", "dtype": "float64"}
            de = {"kind": "poly", "names": list(names), "exps": [[2] + [0] * (nn - 1), [1] + [0] * (nn - 1)] + ([[0] * (nn - 1) + [1]] if nn > 1 else []), "shape": [],
                  "slots": [[1], [1]] + ([[3]] if nn > 1 else []), "mode": "raw", "dtype": "float64"}
            add("inexact-ratio", names, dv, dividend=de)
    # divisors with several incomparable top terms (the q1**2 - 2*q0 pattern)
    inc = [
        (("q0", "q1"), [[1, 0], [0, 2]], [[1, 2]]),
        (("q0", "q1"), [[1, 0], [0, 1]], [[2, 0], [0, 2]]),
        (("q0", "q1"), [[1, 0], [0, 1]], [[1, 1]]),
    ]
    for names, dv, de in inc:
        # literal divisor coefficients (1, -2, ...): the loop is then decided with linear arithmetic only
        add("incomparable", names, spec("d", names, dv, (), 0, lit=1.0), dividend=spec("n", names, de, (), 2, lit=0.0))
    if not quick:
        for _ in range(900):
            names = rng.choice([("q0",), ("q0", "q1")])
            dv = S.exps_for(len(names), 2, rng, rng.choice([1, 2]))
            de = S.exps_for(len(names), 3 if len(names) == 1 else 2, rng, rng.choice([1, 2, 3]))
            if _incomparable(dv):
                continue
            shape = rng.choice([(), (), (2,)])
            add("rnd", names, spec("d", names, dv, shape, 3), dividend=spec("n", names, de, rng.choice([(), shape]), 3))
    # strided dividend / divisor arrays (reversed axes in 2-d..4-d, axes rotated by one): literal coefficients, every element distinct
    for shape, view in [((2, 3), "T"), ((2, 3, 2), "cyc"), ((2, 1, 2, 2), "T"), ((2, 2, 2, 2), "T"), ((2, 2, 3), "swap")]:
        dvd = spec("n", ("q0",), [[0], [1], [2]], shape, 0, lit=1.0)
        k_ = 0
        for col in dvd["slots"]:
            for i in range(len(col)):
                k_ += 1
                col[i] = (k_ % 7) - 3 if (k_ % 7) != 3 else 4
        dvd["view"] = view
        add("view", ("q0",), spec("d", ("q0",), [[0], [1]], (), 0, lit=1.0), dividend=dvd)
        dvs = spec("d", ("q0",), [[0], [1]], shape, 0, lit=1.0)
        for col in dvs["slots"]:
            for i in range(len(col)):
                k_ += 1
                col[i] = (k_ % 5) + 1
        dvs["view"] = view
        add("view-divisor", ("q0",), dvs, dividend=spec("n", ("q0",), [[0], [2]], (), 0, lit=2.0))
    # overflowing / non-finite coefficients (native only): termination, see body_special
    for k in range(13):
        n += 1
        cases.append({"id": "%s-%03d-special" % (PROP, n), "op": "special", "k": k, "names": ["q0", "q1"], "limits": lim})
    return cases


def main(argv=None) -> int:
    return H.simple_main(
        PROP, MOD, gen_cases,
        rule="one case = (dividend structure | divisor x symbolic cofactor, divisor structure); non-trivial = >= 2 feasible paths",
        bounds={"univariate": "deg <= 3 by deg <= 2", "multivariate": "<= 3 indeterminates, total degree <= 2(3)", "shapes": "(), (1,), (2,), (3,)",
                "unwinding": "(#monomials in the dividend's exponent box+1)*size*#divisor terms+2 loop iterations; beyond = non-termination candidate, replayed with a 400-iteration / 20 s guard",
                "atoms": "<= 3 per operand (rationals); quotient coefficients are exact rational functions of them",
                "outside": "float rounding (identity is exact over Q); values strictly between 0 and 1e-20 (assumption A-tiny for the 1e-30 cut-off)"},
        functions=["numpoly.poly_divmod", "poly_divide", "poly_remainder", "get_division_candidate", "ndpoly.__truediv__/__mod__/__divmod__ and reflected", "numpoly.where/prod/add/subtract/multiply"],
        assumptions=["S8 loop observation: harness-side wrapper around get_division_candidate (iteration cap / wall guard)",
                     "A-tiny: symbolic values are 0 or at least 1e-20 in magnitude (the 1e-30 cutoff compares like 0)"],
        argv=argv,
    )


if __name__ == "__main__":
    sys.exit(main())
