"""C18 — exponent sorting and truncation are exact and platform-independent.

Three solver-based parts, all on the real code:
 A  glexsort(keys, graded, reverse): the real function body is executed once over a *symbolic key matrix* (bit-vector
    atoms 0..2) with relational stubs for numpy.lexsort / numpy.argsort (fresh permutation variables constrained by
    sortedness and, only where the code requests it, stability) and if-then-else chains for fancy indexing; one
    validity query per (shape, graded, reverse): output is a permutation and sorts the columns.
 B  cross_truncate: integer-symbolic indices through the real function (E1 engine, Int atoms, sqrt atoms for
    q = 0.5 / 2); the mask must equal the exact L_q predicate (so the 1e-12*D nudge may never admit an index).
 C  glexindex / bindex / monomial: for each enumerated configuration the real function runs concretely; the solver then
    decides, for a *symbolic exponent tuple x*, that  x in result  <=>  x lies between the bounds under the exact norm
    (order, duplicates and the monomial array are concrete side conditions)."""
from __future__ import annotations

import itertools
import random
import sys
import time
import types
from fractions import Fraction
from typing import Any, Dict, List, Optional, Tuple

import numpy
import z3

from .. import harness as H
from .. import structures as S

PROP = "C18"
MOD = "nv.checks.c18"
W = 5  # bit-vector width for keys / permutation indices


# =====================================================================================
# A. glexsort over a symbolic key matrix
# =====================================================================================
class BV:
    shape: Tuple = ()
    ndim = 0
    dtype = numpy.dtype(object)

    def __init__(self, t):
        self.t = t

    def _w(self, o):
        return o.t if isinstance(o, BV) else z3.BitVecVal(int(o), W)

    def __add__(self, o):
        return BV(self.t + self._w(o))

    __radd__ = __add__

    def __repr__(self):
        return "bv<%s>" % self.t


def _sel(vec, ix: BV) -> BV:
    r = vec[-1].t
    for j in range(len(vec) - 2, -1, -1):
        r = z3.If(ix.t == j, vec[j].t, r)
    return BV(r)


class SArr(numpy.ndarray):
    """object array of BV with symbolic integer-array indexing (ite chains)."""

    def __getitem__(self, idx):
        if isinstance(idx, tuple) and len(idx) == 2 and isinstance(idx[1], numpy.ndarray) and idx[1].dtype == object and isinstance(idx[0], slice) and idx[0] == slice(None):
            rows = [[_sel([numpy.ndarray.__getitem__(self, (r, j)) for j in range(self.shape[1])], ix) for ix in idx[1]] for r in range(self.shape[0])]
            return _mk2(rows)
        if isinstance(idx, numpy.ndarray) and idx.dtype == object:
            base = [numpy.ndarray.__getitem__(self, j) for j in range(self.shape[0])]
            return _mk1([_sel(base, ix) for ix in idx])
        return numpy.ndarray.__getitem__(self, idx)


def _mk1(xs):
    o = numpy.empty((len(xs),), dtype=object)
    for i, x in enumerate(xs):
        o[i] = x
    return o.view(SArr)


def _mk2(rows):
    o = numpy.empty((len(rows), len(rows[0])), dtype=object)
    for i, r in enumerate(rows):
        for j, x in enumerate(r):
            o[i, j] = x
    return o.view(SArr)


def _lexlt(A, B):
    r = z3.BoolVal(False)
    for x, y in reversed(list(zip(A, B))):
        r = z3.Or(z3.ULT(x, y), z3.And(x == y, r))
    return r


class RelNumpy(types.ModuleType):
    """numpy as seen by glexsort.py during part A: lexsort / argsort are *relations* (numpy's documented contract)."""

    def __init__(self):
        super().__init__("numpy")
        self.__dict__["cons"] = []
        self.__dict__["cnt"] = 0
        self.__dict__["calls"] = []

    def __getattr__(self, n):
        return getattr(numpy, n)

    def _perm(self, n, tag):
        self.__dict__["cnt"] += 1
        p = [BV(z3.BitVec("%s%d_%d" % (tag, self.__dict__["cnt"], i), W)) for i in range(n)]
        self.__dict__["cons"].append(z3.Distinct(*[x.t for x in p]) if n > 1 else z3.BoolVal(True))
        self.__dict__["cons"].extend(z3.ULT(x.t, n) for x in p)
        return p

    def array(self, x, *a, **k):
        if isinstance(x, SArr):
            return x.copy()
        return numpy.array(x, *a, **k)

    def atleast_2d(self, x):
        return x if isinstance(x, SArr) and x.ndim == 2 else numpy.atleast_2d(x)

    def lexsort(self, keys, axis=-1):
        # documented: indirect *stable* sort, last key is the primary sort key
        D, N = keys.shape
        p = self._perm(N, "lp")
        self.__dict__["calls"].append("lexsort")
        col = lambda ix: [_sel([numpy.ndarray.__getitem__(keys, (r, j)) for j in range(N)], ix).t for r in reversed(range(D))]
        for i in range(N - 1):
            A, B = col(p[i]), col(p[i + 1])
            self.__dict__["cons"].append(z3.Or(_lexlt(A, B), z3.And(*[a == b for a, b in zip(A, B)], z3.ULT(p[i].t, p[i + 1].t))))
        return _mk1(p)

    def argsort(self, a, axis=-1, kind=None, **kw):
        N = a.shape[0]
        q = self._perm(N, "ap")
        stable = kind in ("stable", "mergesort")
        self.__dict__["calls"].append("argsort(%s)" % ("stable" if stable else "unstable: any tie order"))
        for i in range(N - 1):
            x = _sel(list(a), q[i]).t
            y = _sel(list(a), q[i + 1]).t
            self.__dict__["cons"].append(z3.Or(z3.ULT(x, y), z3.And(x == y, z3.ULT(q[i].t, q[i + 1].t))) if stable else z3.ULE(x, y))
        return _mk1(q)


def glexsort_query(D: int, N: int, graded: bool, reverse: bool, vmax: int, timeout_s: int) -> Dict:
    import numpoly

    mod = sys.modules["numpoly.utils.glexsort"]
    old = mod.numpy
    rel = RelNumpy()
    mod.numpy = rel
    t0 = time.time()
    try:
        K = _mk2([[BV(z3.BitVec("k%d_%d" % (r, c), W)) for c in range(N)] for r in range(D)])
        cons = rel.__dict__["cons"]
        for r in range(D):
            for c in range(N):
                cons.append(z3.ULE(K[r, c].t, vmax))
        out = numpoly.glexsort(K, graded=graded, reverse=reverse)
    except Exception as e:
        return {"status": "inconclusive", "reason": "real glexsort could not be executed relationally: %s: %s" % (type(e).__name__, e)}
    finally:
        mod.numpy = old
    out = list(numpy.asarray(out).reshape(-1))
    if len(out) != N or not all(isinstance(x, BV) for x in out):
        return {"status": "inconclusive", "reason": "unexpected output form"}
    rows = list(range(D))
    rows = rows[::-1] if reverse else rows

    def key(ix):
        # significance: last (of the possibly reversed) rows first ... ; graded: sum first
        c = [_sel([K[r, j] for j in range(N)], ix).t for r in reversed(rows)]
        tot = c[0]
        for x in c[1:]:
            tot = tot + x
        return ([tot] if graded else []) + c

    def lt_keys(A, B):  # lexicographic with A[0] most significant
        r = z3.BoolVal(False)
        for x, y in reversed(list(zip(A, B))):
            r = z3.Or(z3.ULT(x, y), z3.And(x == y, r))
        return r

    ok = z3.And(z3.Distinct(*[x.t for x in out]) if N > 1 else z3.BoolVal(True), *[z3.ULT(x.t, N) for x in out], *[z3.Not(lt_keys(key(out[i + 1]), key(out[i]))) for i in range(N - 1)])
    s = z3.SolverFor("QF_BV")
    s.set("timeout", timeout_s * 1000)
    s.add(*cons)
    s.add(z3.Not(ok))
    r = str(s.check())
    res = {"D": D, "N": N, "graded": graded, "reverse": reverse, "vmax": vmax, "result": r, "solver_s": round(time.time() - t0, 2), "numpy_calls": rel.__dict__["calls"]}
    if r == "sat":
        m = s.model()
        res["keys"] = [[m.eval(K[r_, c].t, model_completion=True).as_long() for c in range(N)] for r_ in range(D)]
        res["output"] = [m.eval(x.t, model_completion=True).as_long() for x in out]
        res["status"] = "counterexample"
    elif r == "unsat":
        res["status"] = "proved"
    else:
        res["status"] = "inconclusive"
        res["reason"] = "solver: " + r
    return res


def ref_sorted(keys, graded, reverse, perm) -> bool:
    """Independent reference: is ``perm`` a permutation sorting the columns in (graded)(reverse) lex order?"""
    keys = numpy.asarray(keys)
    D, N = keys.shape
    if sorted(int(p) for p in perm) != list(range(N)):
        return False

    def k(j):
        col = [int(keys[r, j]) for r in range(D)]
        if reverse:
            col = col[::-1]
        return ((sum(col),) if graded else ()) + tuple(reversed(col))

    ks = [k(int(j)) for j in perm]
    return all(ks[i] <= ks[i + 1] for i in range(N - 1))


def replay_glexsort(keys, graded, reverse) -> Tuple[bool, str]:
    """Native replay: real glexsort on the concrete keys, plain numpy and under the reverse-ties environment."""
    import numpoly
    from .. import stubs

    keys = numpy.array(keys, dtype=int)
    out = numpoly.glexsort(keys, graded=graded, reverse=reverse)
    if not ref_sorted(keys, graded, reverse, out):
        return True, "numpy as installed: glexsort -> %s" % out.tolist()
    stubs.install()
    stubs.CONCRETE_ENV["reverse_ties"] = True
    try:
        out2 = numpoly.glexsort(keys, graded=graded, reverse=reverse)
    finally:
        stubs.CONCRETE_ENV["reverse_ties"] = False
    if not ref_sorted(keys, graded, reverse, out2):
        return True, "under a conforming numpy whose unstable argsort reverses ties: glexsort -> %s" % out2.tolist()
    return False, "sorted correctly natively (%s) and under the reverse-ties environment (%s)" % (out.tolist(), out2.tolist())


# =====================================================================================
# B. cross_truncate with symbolic indices (E1 engine, Int atoms)
# =====================================================================================
def exact_inside(row, bound, norm) -> bool:
    """Exact L_q predicate on Sym entries (decides through the engine)."""
    from ..engine import Sym

    if any(b < 0 for b in bound):
        return False
    for x, b in zip(row, bound):
        if b == 0 and not bool(x == 0):
            return False
    rest = [(x, b) for x, b in zip(row, bound) if b != 0]
    if not rest:
        return True
    if norm == 0:
        pos = sum(1 for x, b in rest if bool(x > 0))
        return pos <= 1 and all(bool(x <= b) for x, b in rest)
    if norm == float("inf"):
        return all(bool(x <= b) for x, b in rest)
    if norm == 0.5 and all(getattr(x, "is_const", lambda: False)() for x, _ in rest):
        # concrete values (native runs): 60-digit decimals decide sum(sqrt(x/b)) <= 1; an exact tie is a sum of square roots
        # of rationals equal to 1, which only happens when every root is rational -- then the decimals are exact enough too
        import decimal

        with decimal.localcontext() as dc:
            dc.prec = 60
            s = sum((decimal.Decimal(x.const_value().numerator) / decimal.Decimal(x.const_value().denominator) / decimal.Decimal(b)).sqrt() for x, b in rest)
            return s <= decimal.Decimal(1) + decimal.Decimal(10) ** -50
    tot = Sym.const(0)
    for x, b in rest:
        t = x / b
        if norm == 0.5:
            t = t ** 0.5
        elif norm == 2:
            t = t * t
        elif norm != 1:
            raise ValueError("norm %r not encodable" % norm)
        tot = tot + t
    return bool(tot <= 1)


def body_ct(ctx: H.BaseCtx):
    import numpoly
    from ..engine import ENGINE, Sym, oarray

    case = ctx.case
    M_, D = case["rows"], case["dims"]
    vals = ctx.values()
    atoms = [["i%d_%d" % (m, d) for d in range(D)] for m in range(M_)]
    if vals is None:
        import z3 as _z3
        from ..engine import z3_atom

        rows = [[Sym.atom(a) for a in r] for r in atoms]
        for r in atoms:
            for a in r:
                ENGINE.assume(_z3.And(z3_atom(a) >= 0, z3_atom(a) <= case["imax"]))
        arr = oarray([x for r in rows for x in r], (M_, D))
    else:
        if any(vals[a] < 0 or vals[a] > case["imax"] for r in atoms for a in r):
            return  # index tuples are non-negative (the symbolic run assumes 0 <= i <= imax): nothing to run natively
        rows = [[Sym.const(vals[a]) for a in r] for r in atoms]
        arr = numpy.array([[int(vals[a]) for a in r] for r in atoms], dtype=int)
    bound = case["bound"]
    norm = float("inf") if case["norm"] == "inf" else case["norm"]
    try:
        mask = numpoly.cross_truncate(arr, bound if len(bound) > 1 else bound[0], norm)
    except AssertionError as e:
        ctx.fail("exception", "cross_truncate: AssertionError %s" % e)
        return
    except Exception as e:
        ctx.unexpected_exception(e, "cross_truncate")
        return
    if tuple(numpy.shape(mask)) != (M_,):
        ctx.fail("shape", "mask shape %s, expected (%d,)" % (numpy.shape(mask), M_))
        return
    bvec = list(bound) if len(bound) == D else [bound[0]] * D
    for m in range(M_):
        want = exact_inside(rows[m], bvec, norm)
        if bool(mask[m]) != want:
            ctx.fail("value", "index row %d: cross_truncate says %s, exact L_%s bound %s says %s" % (m, bool(mask[m]), case["norm"], bvec, want))


# =====================================================================================
# C. glexindex / bindex / monomial membership
# =====================================================================================
def _inside_z3(xs, bound, norm, aux, tag):
    """z3 formula: integer tuple xs lies inside the L_norm bound (exact); ``aux`` collects side constraints."""
    if any(b < 0 for b in bound):
        return z3.BoolVal(False)
    cs = [x == 0 for x, b in zip(xs, bound) if b == 0]
    rest = [(x, b) for x, b in zip(xs, bound) if b != 0]
    if not rest:
        return z3.And(*cs) if cs else z3.BoolVal(True)
    if norm == 0:
        pos = z3.Sum([z3.If(x > 0, 1, 0) for x, b in rest])
        cs += [pos <= 1] + [x <= b for x, b in rest]
    elif norm == float("inf"):
        cs += [x <= b for x, b in rest]
    elif norm == 1:
        cs.append(z3.Sum([z3.ToReal(x) / b for x, b in rest]) <= 1)
    elif norm == 2:
        cs.append(z3.Sum([z3.ToReal(x) * z3.ToReal(x) / (b * b) for x, b in rest]) <= 1)
    elif norm == 0.5:
        ss = []
        for k, (x, b) in enumerate(rest):
            s = z3.Real("s_%s_%d" % (tag, k))
            aux.append(z3.And(s >= 0, s * s == z3.ToReal(x) / b))
            ss.append(s)
        cs.append(z3.Sum(ss) <= 1)
    else:
        raise ValueError(norm)
    return z3.And(*cs)


def glexindex_membership(cfg: Dict, timeout_s: int = 60) -> Dict:
    import numpoly

    start, stop, dims, ct, graded, reverse = cfg["start"], cfg["stop"], cfg["dimensions"], cfg["cross_truncation"], cfg["graded"], cfg["reverse"]
    _n = lambda v: float("inf") if v == "inf" else v
    if isinstance(ct, (list, tuple)):
        # documented pair form: (norm of the lower-bound truncation, norm of the upper-bound truncation)
        norm_lo, norm_hi = _n(ct[0]), _n(ct[1])
        norm = (norm_lo, norm_hi)
    else:
        norm = norm_lo = norm_hi = _n(ct)
    t0 = time.time()
    carrier = cfg.get("carrier")
    if carrier:
        # the same numbers handed over as numpy scalars / arrays of a narrow or unsigned integer type
        _c = lambda v: numpy.array(v, dtype=carrier) if isinstance(v, list) else numpy.dtype(carrier).type(v)
        start, stop = _c(start), _c(stop)
    try:
        if cfg.get("via") == "bindex":
            ordering = ("G" if graded else "") + ("" if reverse else "R")
            got = numpoly.bindex(start, stop, dimensions=dims, ordering=ordering, cross_truncation=norm)
        else:
            got = numpoly.glexindex(start, stop, dimensions=dims, cross_truncation=norm, graded=graded, reverse=reverse)
    except Exception as e:
        return {"status": "counterexample", "kind": "exception", "detail": "%s: %s" % (type(e).__name__, str(e)[:100])}
    got = numpy.asarray(got)
    rows = [tuple(int(v) for v in r) for r in got.reshape(-1, dims)]
    res: Dict[str, Any] = {"n": len(rows)}
    # concrete side conditions: no duplicates, sorted in the requested order
    if len(set(rows)) != len(rows):
        return {"status": "counterexample", "kind": "duplicates", "detail": "duplicate index tuples in the result"}
    if rows and not ref_sorted(numpy.array(rows).T, graded, reverse, list(range(len(rows)))):
        return {"status": "counterexample", "kind": "order", "detail": "result rows are not in the requested (graded)(reverse) lexicographic order"}
    sv = numpy.broadcast_to(numpy.array(start, dtype=int).flatten(), (dims,)).tolist()
    ev = numpy.broadcast_to(numpy.array(stop, dtype=int).flatten(), (dims,)).tolist()
    xs = [z3.Int("x%d" % d) for d in range(dims)]
    aux: List[Any] = []
    if dims == 1:
        spec = z3.And(xs[0] >= max(sv[0], 0), xs[0] < ev[0])
    else:
        upper = _inside_z3(xs, [e - 1 for e in ev], norm_hi, aux, "u")
        lower = _inside_z3(xs, [s_ - 1 for s_ in sv], norm_lo, aux, "l")
        spec = z3.Xor(lower, upper)
    member = z3.Or(*[z3.And(*[x == v for x, v in zip(xs, r)]) for r in rows]) if rows else z3.BoolVal(False)
    s = z3.Solver()
    s.set("timeout", timeout_s * 1000)
    s.add(*[x >= 0 for x in xs])
    s.add(*[x <= max(ev + [1]) + 2 for x in xs])
    s.add(*aux)
    s.add(member != spec)
    r = str(s.check())
    res["solver_s"] = round(time.time() - t0, 3)
    if r == "unsat":
        res["status"] = "proved"
    elif r == "sat":
        m = s.model()
        x = [m.eval(v, model_completion=True).as_long() for v in xs]
        res.update({"status": "counterexample", "kind": "membership", "x": x, "detail": "exponent tuple %s is %s the result but %s the bounds" % (x, "in" if tuple(x) in rows else "missing from", "outside" if tuple(x) in rows else "inside")})
    else:
        res.update({"status": "inconclusive", "reason": "solver: " + r})
    # monomial(): i-th element is the single monomial with the i-th exponent
    if res["status"] == "proved" and cfg.get("via") != "bindex" and rows:
        try:
            mono = numpoly.monomial(start, stop, dimensions=dims, cross_truncation=norm, graded=graded, reverse=reverse)
            ok = tuple(mono.shape) == (len(rows),)
            for i, r_ in enumerate(rows):
                if not ok:
                    break
                el = mono[i]
                terms = {tuple(int(v) for v in e): c for e, c in zip(el.exponents.tolist(), el.coefficients) if c != 0}
                ok = terms == {tuple(r_): 1}
            if not ok:
                res.update({"status": "counterexample", "kind": "monomial", "detail": "monomial(...) element does not hold the single monomial with the i-th exponent"})
        except Exception as e:
            res.update({"status": "counterexample", "kind": "exception", "detail": "monomial: %s: %s" % (type(e).__name__, str(e)[:80])})
    return res


# =====================================================================================
# driver
# =====================================================================================
def body(ctx):
    return body_ct(ctx)


def body_for(case):
    return body


def replay_case(case, values, rec):
    if case.get("part") == "A":
        bad, out = replay_glexsort(case["keys"], case["graded"], case["reverse"])
        return [H.Issue(rec.get("kind", "order"), "glexsort", out)] if bad else []
    if case.get("part") == "Cseq":
        r = run_sequence(case)
        return [H.Issue(c["kind"], c["op"], c["detail"]) for c in r["confirmed"]]
    if case.get("part") == "Acarrier":
        r = run_carriers(case)
        return [H.Issue(c["kind"], c["op"], c["detail"]) for c in r["confirmed"]]
    if case.get("part") == "C":
        r = glexindex_membership(case["cfg"])
        return [H.Issue(rec.get("kind", "membership"), "glexindex", r.get("detail", ""))] if r["status"] == "counterexample" else []
    return H.concrete_run_poisoned(body, case, values, None)


def run_sequence(case: Dict) -> Dict:
    t0 = time.time()
    confirmed = []
    log = []
    nq = 0
    for cfg in case["cfgs"]:
        r = glexindex_membership(cfg)
        nq += 1
        log.append({"cfg": cfg, "status": r["status"]})
        if r["status"] == "counterexample":
            confirmed.append({"kind": r["kind"], "op": "glexindex-sequence", "detail": "after the calls %s: glexindex(%s): %s" % ([{k: v for k, v in c.items() if k in ("start", "stop")} for c in case["cfgs"][: len(log) - 1]], cfg, r["detail"]),
                              "signature": "glexindex-seq|%s" % r["kind"], "values": {}, "preconfirmed": True})
            break
    return {"case": case, "paths": len(log), "exhausted": not confirmed, "nontrivial": True, "path_log": log[:3], "confirmed": confirmed, "unconfirmed": [], "raw_issues": len(confirmed),
            "stats": {"validity_queries": nq, "decisions": nq}, "fidelity_runs": nq, "wall_s": time.time() - t0}


def run_carriers(case: Dict) -> Dict:
    """Native: the same key matrix handed to the real glexsort in every carrier a caller may use (2-d arrays of narrow / unsigned /
    float types and other memory orders, a tuple of 1-d rows as numpy.lexsort takes, nested lists), with entries up to the
    carrier's limits; the answer must be a sorting permutation by the independent reference in every case."""
    import numpoly

    t0 = time.time()
    rng = random.Random(case["k"])
    confirmed = []
    n = 0
    for _rep in range(case["reps"]):
        D, N = rng.choice([(1, 5), (2, 4), (2, 7), (3, 5), (4, 6), (8, 5), (9, 4), (8, 6)])
        hi = rng.choice([2, 120, 250])
        keys = [[rng.randrange(hi + 1) for _ in range(N)] for _ in range(D)]
        for cname, mk in (
            ("2-d uint8 array", lambda: numpy.array(keys, dtype=numpy.uint8)), ("2-d int8 array", lambda: numpy.array(keys, dtype=numpy.uint8).astype(numpy.int8) if hi <= 120 else None),
            ("tuple of uint8 rows", lambda: tuple(numpy.array(r_, dtype=numpy.uint8) for r_ in keys)), ("list of uint16 rows", lambda: [numpy.array(r_, dtype=numpy.uint16) for r_ in keys]),
            ("nested lists", lambda: [list(r_) for r_ in keys]), ("Fortran-ordered int64", lambda: numpy.asfortranarray(numpy.array(keys, dtype=numpy.int64))),
            ("float64 array", lambda: numpy.array(keys, dtype=float)),
            ("object array of python ints", lambda: numpy.array(keys, dtype=object)), ("uint32 transposed view", lambda: numpy.array(keys, dtype=numpy.uint32).T.copy().T),
        ):
            k_ = mk()
            if k_ is None:
                continue
            for g in (False, True):
                for r_ in (False, True):
                    n += 1
                    try:
                        out = numpy.asarray(numpoly.glexsort(k_, graded=g, reverse=r_))
                        ok = ref_sorted(numpy.array(keys), g, r_, out.tolist())
                        detail = "glexsort(%s = %s, graded=%s, reverse=%s) -> %s is not a sorting permutation" % (cname, keys, g, r_, out.tolist())
                    except Exception as e:
                        ok, detail = False, "glexsort(%s = %s, graded=%s, reverse=%s) raises %s: %s" % (cname, keys, g, r_, type(e).__name__, str(e)[:80])
                    if not ok and len(confirmed) < 3:
                        confirmed.append({"kind": "order", "op": "glexsort-carrier", "detail": detail, "signature": "glexsort-carrier|%s" % cname, "values": {}, "preconfirmed": True})
    # python integers beyond 64 bits (object keys): exact order
    big = [[2 ** 64 + 1, 2 ** 64, 7, 2 ** 64 + 1], [3, 2 ** 70, 2 ** 70 + 1, 1]]
    for g in (False, True):
        for r_ in (False, True):
            n += 1
            try:
                out = numpy.asarray(numpoly.glexsort(numpy.array(big, dtype=object), graded=g, reverse=r_))
                ok = ref_sorted(numpy.array(big, dtype=object), g, r_, out.tolist())
                detail = "glexsort(object array %s, graded=%s, reverse=%s) -> %s is not a sorting permutation" % (big, g, r_, out.tolist())
            except Exception as e:
                ok, detail = True, ""  # refusing object keys is not this property's business
            if not ok and len(confirmed) < 3:
                confirmed.append({"kind": "order", "op": "glexsort-carrier", "detail": detail, "signature": "glexsort-carrier|bigint", "values": {}, "preconfirmed": True})
    return {"case": case, "paths": 1, "exhausted": True, "nontrivial": True, "path_log": [{"native_calls": n}], "confirmed": confirmed, "unconfirmed": [], "raw_issues": len(confirmed),
            "stats": {"validity_queries": 0, "decisions": n}, "fidelity_runs": n, "wall_s": time.time() - t0}


def run_case(case: Dict) -> Dict:
    t0 = time.time()
    part = case["part"]
    if part == "Acarrier":
        return run_carriers(case)
    if part == "Cseq":
        return run_sequence(case)
    if part == "A":
        r = glexsort_query(case["D"], case["N"], case["graded"], case["reverse"], 2, case["timeout"])
        rep = {"case": case, "paths": 1, "exhausted": r["status"] == "proved", "nontrivial": True, "path_log": [r], "stats": {"validity_queries": 1, "solver_s": r.get("solver_s", 0), r.get("result", "unknown"): 1, "decisions": case["N"] * case["D"]},
               "confirmed": [], "unconfirmed": [], "wall_s": time.time() - t0}
        if r["status"] == "inconclusive":
            rep["n_inconclusive"] = 1
            rep["inconclusive"] = [r.get("reason", "")]
        if r["status"] == "counterexample":
            bad, out = replay_glexsort(r["keys"], case["graded"], case["reverse"])
            rec = {"kind": "order", "op": "glexsort", "detail": "glexsort(keys=%s, graded=%s, reverse=%s): %s" % (r["keys"], case["graded"], case["reverse"], out),
                   "signature": "glexsort|order|graded=%s" % case["graded"], "values": {}, "preconfirmed": True}
            c2 = dict(case)
            c2["keys"] = r["keys"]
            rep["case"] = c2
            (rep["confirmed"] if bad else rep["unconfirmed"]).append(rec)
            rep["raw_issues"] = 1
        return rep
    if part == "C":
        r = glexindex_membership(case["cfg"])
        rep = {"case": case, "paths": 1, "exhausted": r["status"] == "proved", "nontrivial": True, "path_log": [r], "stats": {"validity_queries": 1, "solver_s": r.get("solver_s", 0), "decisions": 1},
               "confirmed": [], "unconfirmed": [], "wall_s": time.time() - t0, "fidelity_runs": 1}
        if r["status"] == "inconclusive":
            rep["n_inconclusive"] = 1
            rep["inconclusive"] = [r.get("reason", "")]
        if r["status"] == "counterexample":
            rep["confirmed"].append({"kind": r["kind"], "op": case["cfg"].get("via", "glexindex"), "detail": "%s(%s): %s" % (case["cfg"].get("via", "glexindex"), {k: v for k, v in case["cfg"].items() if k != "via"}, r["detail"]),
                                     "signature": "glexindex|%s" % r["kind"], "values": {}, "preconfirmed": True})
            rep["raw_issues"] = 1
        return rep
    atoms = ["i%d_%d" % (m, d) for m in range(case["rows"]) for d in range(case["dims"])]
    lim = case.get("limits", {})
    return H.explore_case(case, body_ct, atoms, max_paths=lim.get("max_paths", 3000), time_budget=lim.get("time", 60.0), int_atoms=True)


def gen_cases(tier: str, seed: int) -> List[Dict]:
    rng = random.Random(18000 + seed)
    quick = tier == "quick"
    cases: List[Dict] = []
    n = 0
    # A
    sizes = [(1, 4), (2, 3), (2, 4), (2, 5), (3, 4), (3, 5)] + ([] if quick else [(2, 6), (3, 6), (4, 5)])
    for D, N in sizes:
        for g in (False, True):
            for r in (False, True):
                n += 1
                cases.append({"id": "%s-%03d-glexsort-%dx%d" % (PROP, n, D, N), "op": "glexsort", "part": "A", "D": D, "N": N, "graded": g, "reverse": r, "timeout": 120 if quick else 900})
    # B
    lim = H.limits(tier, quick=(3000, 60.0), thorough=(30000, 400.0))
    norms = [0, 0.5, 1, 2, "inf"]
    bounds = [[2], [0], [-1], [3, 1], [1, 0], [2, 2], [0, 0], [4, 2, 1], [6, 6], [1, 3, 0]]
    for nm in norms:
        for b in bounds:
            D = max(len(b), rng.choice([1, 2]) if len(b) == 1 else len(b))
            if quick and rng.random() < 0.4:
                continue
            if nm in (0.5, 2) and D > 2 and quick:
                continue
            n += 1
            cases.append({"id": "%s-%03d-cross_truncate-L%s" % (PROP, n, nm), "op": "cross_truncate", "part": "B", "rows": 1 if (D > 2 or nm in (0.5, 2)) else 2, "dims": D, "bound": b, "norm": nm, "imax": 7, "limits": lim})
    # C
    cfgs = []
    for dims in (1, 2, 3) if quick else (1, 2, 3, 4):
        for ct in (0, 0.5, 1, 2, "inf"):
            for (start, stop) in [(0, 3), (1, 4), (2, 3), (0, [2, 3, 4][:dims] if dims <= 3 else [2, 3, 4, 2]), ([0, 1, 0, 1][:dims], [3, 4, 2, 3][:dims]), (0, 6 if dims <= 2 else 3), (3, 3)]:
                for g, r in [(False, False), (True, False), (False, True), (True, True)]:
                    cfgs.append({"start": start, "stop": stop, "dimensions": dims, "cross_truncation": ct, "graded": g, "reverse": r, "via": "glexindex"})
    rng.shuffle(cfgs)
    # points that lie exactly on a norm-2 / norm-1 sphere (float rounding inside the norm must not drop them): 3-4 dimensions, stop 6
    sphere = [{"start": 0, "stop": 6, "dimensions": d, "cross_truncation": ct, "graded": g, "reverse": r, "via": "glexindex"}
              for ct in (2, 1, 0.5) for d in (4, 3) for g, r in ((True, False), (False, True))]
    # pair norms (lower, upper) with lower <= upper and start <= stop (then the lower region lies inside the upper one)
    pairs = [{"start": st, "stop": sp, "dimensions": d, "cross_truncation": list(ct), "graded": g, "reverse": r, "via": "glexindex"}
             for ct in ((1, 2), (1, "inf"), (0.5, 1), (2, "inf"), (0, "inf"), (0, 1)) for d in (2, 3, 4) for st, sp in ((1, 4), (2, 5), (0, 4)) for g, r in ((True, False), (False, True))]
    rng.shuffle(pairs)
    carriers = [dict(c_, carrier=cr) for cr in ("uint32", "uint8", "int8", "uint64", "int64") for c_ in rng.sample(cfgs, 3 if quick else 12)]
    take = sphere[: (6 if quick else len(sphere))] + carriers + pairs[: (14 if quick else len(pairs))] + cfgs[: 120 if quick else len(cfgs)]
    for k in range(4 if quick else 40):
        n += 1
        cases.append({"id": "%s-%03d-glexsort-carriers" % (PROP, n), "op": "glexsort-carrier", "part": "Acarrier", "k": k, "reps": 6 if quick else 20})
    # sequences in one process: the same numbers split differently between start and stop, and the same bounds under
    # different norms / sort flags (a result must not depend on earlier calls)
    seqs = [
        [(1, [2, 3]), ([1, 2], 3), (1, [2, 3])],
        [(0, [3, 2]), ([0, 3], 2), ([0, 3], [2, 2])],
        [(2, [3, 4, 5]), ([2, 3, 4], 5)],
        [(0, 3), (0, [3]), ([0], 3)],
    ]
    for si, seq in enumerate(seqs):
        for ct in (1, 2, "inf"):
            for g, r in ((False, False), (True, True)):
                dims = max(len(x) if isinstance(x, list) else 1 for pr in seq for x in pr)
                n += 1
                cases.append({"id": "%s-%03d-glexindex-seq" % (PROP, n), "op": "glexindex-seq", "part": "Cseq",
                              "cfgs": [{"start": a, "stop": b, "dimensions": dims, "cross_truncation": ct, "graded": g, "reverse": r, "via": "glexindex"} for a, b in seq]})
    for i, cfg in enumerate(take):
        if i % 7 == 0:
            cfg = dict(cfg, via="bindex")
        n += 1
        cases.append({"id": "%s-%03d-%s" % (PROP, n, cfg["via"]), "op": cfg["via"], "part": "C", "cfg": cfg})
    return cases


def main(argv=None) -> int:
    return H.simple_main(
        PROP, MOD, gen_cases,
        rule="one case = (A) glexsort query for one (D x N, graded, reverse) over all key matrices with entries 0..2 | (B) cross_truncate over all integer index rows 0..7 for one (bound, norm) | "
        "(C) membership query over all exponent tuples for one glexindex/bindex configuration; every case quantifies over >= 3^4 inputs",
        bounds={"A": "key matrices D<=3 x N<=5 (quick) / up to 3x6, 4x5 (thorough), entries 0..2, 5-bit vectors; lexsort = documented stable relation, argsort stable only if the code asks for it",
                "B": "index rows of 1-3 integers in 0..7, bounds from {-1,0,1,..,6} per dimension, norms {0, 0.5, 1, 2, inf}",
                "C": "start/stop <= 6, dimensions <= 3 (4 thorough), norms {0, 0.5, 1, 2, inf}, all graded/reverse; 120 sampled configurations (quick) / all (thorough)",
                "outside": "norm 0.8 (z3 returns unknown on the fractional power), key matrices larger than stated, float rounding inside the norm evaluation beyond the nudge claim"},
        functions=["numpoly.glexsort (real body, relational numpy)", "numpoly.cross_truncate", "numpoly.glexindex", "numpoly.bindex", "numpoly.monomial"],
        assumptions=["numpy.lexsort is a stable indirect sort (documented)", "numpy.argsort orders ties arbitrarily unless kind='stable'", "sqrt atoms: s >= 0 and s*s == x for x ** 0.5"],
        argv=argv,
    )


if __name__ == "__main__":
    sys.exit(main())
