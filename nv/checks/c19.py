"""C19 — leading-term queries, decomposition and the sort proxy match the polynomial (E1 + S4)."""
from __future__ import annotations

import itertools
import random
import sys
from typing import Dict, List

import numpy

from .. import harness as H
from .. import model as M
from .. import structures as S
from ..common import check_invariants, snapshot_args, check_unmodified
from .c07 import order_key

PROP = "C19"
MOD = "nv.checks.c19"


def model_lead(e: M.MP, names, graded, reverse):
    """(leading monomial, coefficient) of the largest term with non-zero coefficient (forks if undecided)."""
    for mono in sorted(e.terms, key=lambda m: order_key(m, names, graded, reverse), reverse=True):
        c = e.terms[mono]
        if bool(c != 0):
            return mono, c
    return (), M.as_sym(0)


def _cmp_key(k1, c1, k2, c2) -> int:
    if k1 != k2:
        return -1 if k1 < k2 else 1
    d = c1 - c2
    if bool(d != 0):
        return -1 if bool(d < 0) else 1
    return 0


def body_large(ctx: H.BaseCtx):
    """Native only: arrays far larger than the symbolic families (size-dependent code paths).  The oracle is vectorised numpy
    over the coefficient arrays; the order of the monomials comes from the same documented order_key."""
    import numpoly

    if ctx.symbolic:
        return
    case = ctx.case
    shape = tuple(case["shape"])
    g, r = case["graded"], case["reverse"]
    rs = numpy.random.RandomState(case["k"])
    nn = case.get("nnames", 2)
    names = tuple("q%d" % i for i in range(nn))
    if nn == 2:
        monos = [(1, 0), (0, 1), (0, 0), (1, 1)]
    else:
        # many declared indeterminates, exponents on both sides of 128 / 256 in the last and the first one
        unit = lambda i, v: tuple(v if j == i else 0 for j in range(nn))
        monos = [unit(nn - 1, 200), unit(nn - 1, 3), unit(0, 255), unit(0, 1), tuple([0] * nn), tuple(199 if j == nn - 2 else (1 if j == nn - 1 else 0) for j in range(nn)),
                 tuple(1 if j == nn - 2 else (199 if j == nn - 1 else 0) for j in range(nn))]
        if case.get("beyond_byte"):
            monos.append(unit(nn - 1, 300))  # (with and without an exponent past one byte: packing schemes switch on the largest value)
    coef = {m: rs.randint(-3, 4, size=shape) * (rs.rand(*shape) < 0.6) for m in monos}
    p = numpoly.ndpoly(exponents=[list(m) for m in monos], shape=shape, names=names, dtype=int)
    for key, m in zip(p.keys, monos):
        p.values[key] = coef[m]
    ranked = sorted(monos, key=lambda m: order_key(tuple((n, e) for n, e in zip(names, m) if e), names, g, r))  # ascending
    want_e = numpy.zeros(shape + (nn,), dtype=int)
    want_c = numpy.zeros(shape, dtype=int)
    for m in ranked:  # later (larger) monomials overwrite
        nz = coef[m] != 0
        want_e[nz] = m
        want_c[nz] = coef[m][nz]
    try:
        le = numpy.asarray(numpoly.lead_exponent(p, graded=g, reverse=r))
        lc = numpy.asarray(numpoly.tonumpy(numpoly.lead_coefficient(p, graded=g, reverse=r)))
    except Exception as e:
        ctx.unexpected_exception(e, "lead_* on shape %s" % (shape,))
        return
    if le.shape != want_e.shape or not numpy.array_equal(le, want_e):
        bad = int(numpy.sum(numpy.any(le.reshape(want_e.shape) != want_e, axis=-1))) if le.size == want_e.size else -1
        ctx.fail("value", "lead_exponent on an array of shape %s (graded=%s, reverse=%s) is wrong for %d element(s)" % (shape, g, r, bad))
    if lc.shape != want_c.shape or not numpy.array_equal(lc, want_c):
        ctx.fail("value", "lead_coefficient on an array of shape %s (graded=%s, reverse=%s) differs from the vectorised reference" % (shape, g, r))
    # sums / decompose / isconstant on the same array
    try:
        parts = numpoly.decompose(p)
        tot = numpoly.sum(parts, 0)
        diff = tot - p
        if any(numpy.any(c) for c in diff.coefficients):
            ctx.fail("value", "decompose slices do not sum to the input for shape %s" % (shape,))
    except Exception as e:
        ctx.unexpected_exception(e, "decompose on shape %s" % (shape,))


def body(ctx: H.BaseCtx):
    import numpoly

    case = ctx.case
    if case.get("fn") == "large":
        return body_large(ctx)
    spec = case["poly"]
    p = ctx.build(spec)
    mp = ctx.model(spec)
    names = list(spec["names"])
    snap = snapshot_args([p])
    fn = case["fn"]
    g, r = case.get("graded", False), case.get("reverse", False)
    items = M.flat_items(mp)
    shape = tuple(mp.shape)
    if not ctx.symbolic and fn in ("argext", "proxy"):
        # native runs: rank and identify elements by the numbers the operand really holds (a valuation such as 5/6 is stored as
        # the nearest float; comparing it with the exact fraction would be a comparison with an element that is not there)
        items = M.flat_items(M.to_model(p))
    try:
        if fn in ("lead", "proxy", "argext"):
            leads = [model_lead(e, names, g, r) for e in items]
        if fn == "lead":
            le = numpoly.lead_exponent(p, graded=g, reverse=r)
            lc = numpoly.lead_coefficient(p, graded=g, reverse=r)
            if tuple(numpy.shape(le)) != shape + (len(names),):
                ctx.fail("shape", "lead_exponent shape %s, expected %s" % (numpy.shape(le), shape + (len(names),)))
            else:
                lef = numpy.asarray(le).reshape(-1, len(names))
                for i, (mono, c) in enumerate(leads):
                    want = [dict(mono).get(nm, 0) for nm in names]
                    if [int(v) for v in lef[i]] != want:
                        ctx.fail("value", "lead_exponent element %d is %s, expected %s" % (i, [int(v) for v in lef[i]], want))
            ctx.expect_model(lc, M.mp_array([M.MP.const(c) for _, c in leads], shape), "lead_coefficient")
        elif fn == "proxy":
            pr = numpoly.sortable_proxy(p, graded=g, reverse=r)
            flat = [int(v) for v in numpy.asarray(pr).reshape(-1)]
            if tuple(numpy.shape(pr)) != shape or sorted(flat) != list(range(len(items))):
                ctx.fail("value", "sortable_proxy %s is not a permutation of 0..%d in shape %s" % (flat, len(items) - 1, shape))
            else:
                keys = [order_key(m, names, g, r) for m, _ in leads]
                for i, j in itertools.combinations(range(len(items)), 2):
                    c = _cmp_key(keys[i], leads[i][1], keys[j], leads[j][1])
                    if c < 0 and not flat[i] < flat[j] or c > 0 and not flat[i] > flat[j]:
                        ctx.fail("value", "sortable_proxy ranks elements %d,%d as %d,%d but (leading exponent, coefficient) orders them %s" % (i, j, flat[i], flat[j], "<" if c < 0 else ">"))
        elif fn == "argext":
            opt = numpoly.get_options()
            g, r = opt["sort_graded"], opt["sort_reverse"]
            leads = [model_lead(e, names, g, r) for e in items]
            keys = [order_key(m, names, g, r) for m, _ in leads]
            for name, sign in (("argmax", 1), ("argmin", -1), ("amax", 1), ("amin", -1), ("amax(out=)", 1), ("amin(out=)", -1)):
                if name.endswith("(out=)"):
                    # an output buffer with a field for every term of the input -- over other indeterminates: whatever the call does
                    # with it, what it returns is an element of the input
                    try:
                        buf = numpoly.ndpoly(exponents=p.exponents, shape=(), names=tuple("q%d" % (7 + i) for i in range(len(p.names))), dtype=p.dtype)
                        for k_ in buf.keys:
                            buf.values[str(k_)] = 0
                        res = getattr(numpoly, name[:4])(p, out=buf)
                    except Exception:
                        continue  # refusing is allowed
                else:
                    res = getattr(numpoly, name)(p)
                if name.startswith("arg"):
                    idx = int(res)
                    if not 0 <= idx < len(items):
                        ctx.fail("value", "%s returned %s" % (name, res))
                        continue
                    for j in range(len(items)):
                        c = _cmp_key(keys[j], leads[j][1], keys[idx], leads[idx][1])
                        if c * sign > 0:
                            ctx.fail("value", "%s returned %d but element %d is %s" % (name, idx, j, "larger" if sign > 0 else "smaller"))
                            break
                else:
                    # the returned polynomial must be an element that is extreme for the order
                    rm = M.to_model(res)
                    if tuple(rm.shape) != ():
                        ctx.fail("shape", "%s without axis returned shape %s" % (name, rm.shape))
                        continue
                    rl = model_lead(rm.item(), names, g, r)
                    rk = order_key(rl[0], names, g, r)
                    for j in range(len(items)):
                        c = _cmp_key(keys[j], leads[j][1], rk, rl[1])
                        if c * sign > 0:
                            ctx.fail("value", "%s is not extreme: element %d is %s" % (name, j, "larger" if sign > 0 else "smaller"))
                            break
                    # and it must be one of the elements
                    found = False
                    for e in items:
                        if all(bool((e.coeff(m) - rm.item().coeff(m)) == 0) for m in set(e.terms) | set(rm.item().terms)):
                            found = True
                            break
                    if not found:
                        ctx.fail("value", "%s returned a polynomial that is not an element of the array" % name)
        elif fn == "const":
            nonconst = any(bool(c != 0) for e in items for m, c in e.terms.items() if m != ())
            ic = numpoly.isconstant(p)
            im = p.isconstant()
            if bool(ic) != (not nonconst) or bool(im) != (not nonconst):
                ctx.fail("value", "isconstant says %s/%s, polynomial is %sconstant" % (ic, im, "not " if nonconst else ""))
            try:
                arr = numpoly.tonumpy(p)
                exc = None
            except Exception as e:
                arr, exc = None, e
            if nonconst:
                ctx.expect_exception(exc, [numpoly.FeatureNotSupported], "tonumpy of a non-constant")
            elif exc is not None:
                ctx.unexpected_exception(exc, "tonumpy")
            else:
                if isinstance(arr, numpoly.ndpoly) or not isinstance(arr, numpy.ndarray):
                    ctx.fail("type", "tonumpy returned %s" % type(arr).__name__)
                ctx.expect_model(arr, mp, "tonumpy")
            d = p.todict()
            md = M.from_attributes([list(k) for k in d], [d[k] for k in d], tuple(p.names), shape)
            ctx.expect_model(md, mp, "todict")
            if len({tuple(int(v) for v in k) for k in d}) != len(d):
                ctx.fail("malformed", "todict has duplicate keys")
        elif fn == "decompose":
            dec = numpoly.decompose(p)
            dm = M.to_model(dec)
            if tuple(dm.shape[1:]) != shape:
                ctx.fail("shape", "decompose shape %s for input shape %s" % (dm.shape, shape))
            else:
                for k in range(dm.shape[0]):
                    monos = set()
                    for e in M.flat_items(dm[k]) if shape else [dm[k]]:
                        for m, c in e.terms.items():
                            if bool(c != 0):
                                monos.add(m)
                    if len(monos) > 1:
                        ctx.fail("value", "decompose slice %d holds %d different monomials" % (k, len(monos)))
                tot = dm[0]
                for k in range(1, dm.shape[0]):
                    tot = M.amap(lambda a, b: a + b, tot, dm[k])
                ctx.expect_model(tot if isinstance(tot, numpy.ndarray) else M.mp_array([tot], ()), mp, "sum of decompose slices")
            check_invariants(ctx, dec, "decompose")
        elif fn == "set_dimensions":
            dims = case["dimensions"]
            res = numpoly.set_dimensions(p, dims)
            if dims >= len(names):
                ctx.expect_model(res, mp, "set_dimensions(+)")
                if len(res.names) != max(dims, len(names)) or not set(names) <= set(res.names):
                    ctx.fail("names", "set_dimensions(%d): names %s from %s" % (dims, tuple(res.names), tuple(names)))
            else:
                dropped = set(names[dims:])
                exp = M.amap(lambda e: M.MP({m: c for m, c in e.terms.items() if not (dropped & {nm for nm, _ in m})}), mp)
                ctx.expect_model(res, exp, "set_dimensions(-)")
                if tuple(res.names) != tuple(names[:dims]):
                    ctx.fail("names", "set_dimensions(%d): names %s, expected %s" % (dims, tuple(res.names), tuple(names[:dims])))
            check_invariants(ctx, res, "set_dimensions")
    except Exception as e:
        ctx.unexpected_exception(e, fn)
    check_unmodified(ctx, [p], snap)


def body_for(case):
    return body


def run_case(case: Dict) -> Dict:
    return H.simple_run_case(case, body, [case["poly"]])


def gen_cases(tier: str, seed: int) -> List[Dict]:
    rng = random.Random(19000 + seed)
    quick = tier == "quick"
    lim = H.limits(tier)
    cases: List[Dict] = []
    n = 0
    monosets = [
        (("q0",), [[0], [1], [2]]),
        (("q0", "q1"), [[0, 0], [1, 0], [0, 1], [1, 1]]),
        (("q0", "q1"), [[2, 0], [1, 1], [0, 2], [0, 0]]),
        (("q0", "q1", "q2"), [[1, 0, 0], [0, 1, 0], [0, 0, 1], [1, 1, 0]]),
        (("q2", "q10"), [[1, 0], [0, 1], [0, 2]]),
    ]
    flags = [(g, r) for g in (False, True) for r in (False, True)]
    shapes = [(), (2,), (3,), (2, 2)] if quick else [(), (1,), (2,), (3,), (2, 2), (1, 3), (2, 1, 2)]

    def add(fn, spec, **kw):
        nonlocal n
        n += 1
        c = {"id": "%s-%03d-%s" % (PROP, n, fn), "op": fn, "fn": fn, "poly": spec, "limits": lim}
        c.update(kw)
        cases.append(c)

    reps = 3 if quick else 30
    for _ in range(reps):
        for names, exps in monosets:
            for (g, r) in flags:
                shape = rng.choice(shapes)
                size = S.size_of(shape)
                sub = [e for e in exps if rng.random() < 0.85] or exps[:1]
                atoms = 3 if quick else 5
                spec = S.make_poly_spec("a", names, sub, shape, rng, atoms, zero_prob=0.2, literal_prob=0.35, mode="raw")
                add("lead", spec, graded=g, reverse=r)
                if size >= 2:
                    # equal leading terms / coefficients reachable through shared atoms and literals
                    spec2 = S.make_poly_spec("a", names, sub[: 3], shape, rng, 2 if quick else 3, zero_prob=0.2, literal_prob=0.5, mode="raw")
                    add("proxy", spec2, graded=g, reverse=r)
                    spec3 = S.make_poly_spec("a", names, sub[: 3], shape, rng, 2, zero_prob=0.2, literal_prob=0.5, mode="raw")
                    add("argext", spec3, options={"sort_graded": g, "sort_reverse": r})
    # constants reduce to numeric order
    add("proxy", S.make_poly_spec("a", ("q0",), [[0]], (3,), rng, 3, zero_prob=0.0, literal_prob=0.0, mode="raw"), graded=False, reverse=False)
    add("argext", S.make_poly_spec("a", ("q0",), [[0]], (3,), rng, 2, zero_prob=0.0, literal_prob=0.3, mode="raw"), options={})
    # polynomials that store no constant term at all: symbolic coefficients (constant exactly when they all vanish) and the zero
    # polynomial stored as all-zero non-constant terms (what q1 - q1 is under retain_coefficients=True)
    for names, exps in [(("q0",), [[1]]), (("q0", "q1"), [[1, 0], [0, 2]]), (("q2", "q10"), [[1, 1]])]:
        for shape in [(), (2,)]:
            sp = S.make_poly_spec("a", names, exps, shape, rng, 2, zero_prob=0.5, literal_prob=0.2, mode="raw")
            add("const", sp, tag_noconst=1)
            zs = {k: v for k, v in sp.items() if k != "pre"}
            zs["slots"] = [[0] * len(col) for col in sp["slots"]]
            add("const", zs, tag_noconst=0)
    for names, exps in monosets:
        for shape in [(), (2,)] + ([] if quick else [(2, 2)]):
            add("const", S.make_poly_spec("a", names, exps[:3] if [0] * len(names) in exps[:3] else [[0] * len(names)] + exps[:2], shape, rng, 3, zero_prob=0.3, literal_prob=0.1, mode=rng.choice(["raw", "clean"])))
            add("decompose", S.make_poly_spec("a", names, exps[:3], shape, rng, 4, zero_prob=0.2, literal_prob=0.1, mode=rng.choice(["raw", "clean"])))
            for dims in range(1, 6):
                if quick and rng.random() < 0.4:
                    continue
                add("set_dimensions", S.make_poly_spec("a", names, exps[:3], shape, rng, 3, zero_prob=0.15, literal_prob=0.15, mode="raw"), dimensions=dims)
    # native dtype layer: coefficients at the edges of the integer dtypes (and exactly representable floats); none of these functions
    # does arithmetic that could change a value, so native results must be exact
    dts = ["int64", "uint64", "int32", "uint8", "int8", "float32", "float64", "uint32"]
    for dt in dts if not quick else dts[:2] + rng.sample(dts[2:], 2):
        names, exps = monosets[1]
        for shape in [(), (2,)]:
            g, r = rng.choice(flags)
            add("decompose", S.extreme_poly_spec(names, exps, shape, dt, rng, zero_prob=0.2), tag_dtype=dt)
            add("lead", S.extreme_poly_spec(names, exps, shape, dt, rng, zero_prob=0.3), graded=g, reverse=r, tag_dtype=dt)
            add("const", S.extreme_poly_spec(names, [[0, 0], [1, 0]], shape, dt, rng, zero_prob=0.5), tag_dtype=dt)
            add("set_dimensions", S.extreme_poly_spec(names, exps, shape, dt, rng, zero_prob=0.2), dimensions=rng.choice([1, 3]), tag_dtype=dt)
    # large arrays (native): sizes around 2**8, 2**16 and a long 2-d shape
    dummy = {"kind": "poly", "names": ["q0"], "exps": [[0]], "shape": [], "slots": [[1]], "mode": "raw"}
    for k, shape in enumerate([(257,), (65537,), (70001,), (300, 300)] if not quick else [(257,), (70001,), (260, 260)]):
        g, r = flags[k % 4]
        add("large", dummy, shape=list(shape), graded=g, reverse=r, k=k)
    for k, nn in enumerate((7, 8, 9, 16)):
        for g, r in flags if not quick else flags[k % 2::2]:
            add("large", dummy, shape=[6], graded=g, reverse=r, k=100 + k, nnames=nn)
            add("large", dummy, shape=[6], graded=g, reverse=r, k=200 + k, nnames=nn, beyond_byte=True)
    # dropping every term (all terms involve a dropped indeterminate)
    for shape in [(), (2,)]:
        add("set_dimensions", S.make_poly_spec("a", ("q0", "q1"), [[0, 1], [1, 1]], shape, rng, 3, zero_prob=0.0, literal_prob=0.2, mode="raw"), dimensions=1)
        add("set_dimensions", S.make_poly_spec("a", ("q0", "q1", "q2"), [[0, 0, 1], [1, 0, 2]], shape, rng, 3, zero_prob=0.0, literal_prob=0.2, mode="raw"), dimensions=2)
    return cases


def main(argv=None) -> int:
    return H.simple_main(
        PROP, MOD, gen_cases,
        rule="one case = (function, polynomial structure, graded/reverse flags or sort options, target dimension); non-trivial = >= 2 feasible paths",
        bounds={"monomial_sets": "<= 4 terms over <= 3 indeterminates", "shapes": "0-d..3-d, <= 4(8) elements", "flags": "all 4 graded/reverse", "set_dimensions": "targets 1..5",
                "outside": "axis= arguments of amax/amin/argmax/argmin (C11); complex coefficients"},
        functions=["numpoly.lead_exponent", "lead_coefficient", "isconstant", "tonumpy", "ndpoly.todict", "decompose", "set_dimensions", "sortable_proxy", "argmax", "argmin", "amax", "amin", "glexsort"],
        argv=argv,
    )


if __name__ == "__main__":
    sys.exit(main())
