"""C11 — on constant polynomials every mirrored function behaves exactly like numpy (E1, partial).

Symbolic: the *values* of the constant arrays (integer atoms; shared atoms and literals make ties reachable, and the solver
explores equalities between distinct atoms as well).  Oracle: the numpy function itself applied to the object array of the
same symbolic values (numpy's own comparison / arithmetic loops decide through the same engine), i.e. numpy's semantics on
the underlying numeric arrays: first occurrence on ties, floor semantics for integer division, ..."""
from __future__ import annotations

import itertools
import random
import sys
from typing import Any, Dict, List

import numpy

from .. import harness as H
from .. import model as M
from .. import structures as S

PROP = "C11"
MOD = "nv.checks.c11"


def _vals(ctx, spec):
    """numeric array (object array of Sym symbolically / int64 natively) and the constant polynomial built from it."""
    import numpoly

    arr = S.build_operand(dict(spec, kind="array"), ctx.values())
    rep = spec.get("repr", 0)
    if rep == 0:
        return arr, numpoly.polynomial(arr)
    # the same constant in a less tidy representation: extra indeterminates, retained all-zero terms, the constant term not
    # stored first (what retain_coefficients=True, dict construction and raw allocation produce)
    a = numpy.asarray(arr)
    zero = a * 0
    if rep == 1:
        p = numpoly.ndpoly(exponents=[[1, 0], [0, 0], [0, 2]], shape=a.shape, names=("q0", "q1"), dtype=a.dtype if a.dtype != object else object)
        for key, val in zip(p.keys, (zero, a, zero)):
            p.values[key] = val
        return arr, p
    if rep == 2:
        return arr, numpoly.ndpoly.from_attributes([[2], [0]], [zero, a], names=("q0",), retain_coefficients=True)
    # rep 3: retained zero terms whose exponent rows sit on packing boundaries (a unit in the leading indeterminate next to
    # 2**16-1 in the last one: any scheme that ranks a row as one machine word wraps exactly there), constant term last
    rows = [[1, 0, 0], [0, 0, 65535], [0, 1, 255], [0, 0, 0]]
    p = numpoly.ndpoly(exponents=rows, shape=a.shape, names=("q0", "q1", "q2"), dtype=a.dtype if a.dtype != object else object)
    for key, val in zip(p.keys, (zero, zero, zero, a)):
        p.values[key] = val
    return arr, p


def _ax(a):
    return tuple(a) if isinstance(a, list) else a


def _shape(x):
    return tuple(x.shape) if hasattr(x, "shape") else tuple(numpy.shape(x))


def _cmp_arrays(ctx, got, want, what, want_poly=False):
    import numpoly

    if want_poly:
        if not isinstance(got, numpoly.ndpoly):
            ctx.fail("type", "%s returned %s, expected a polynomial" % (what, type(got).__name__))
    else:
        if isinstance(got, numpoly.ndpoly):
            ctx.fail("type", "%s returned a polynomial where numpy returns %s" % (what, type(want).__name__))
            return
        gk = numpy.asarray(got).dtype.kind
        wk = numpy.asarray(want).dtype.kind
        if wk in "bi" and gk != wk and not (gk == "O" or wk == "O"):
            ctx.fail("type", "%s returned dtype kind %r, numpy returns %r" % (what, gk, wk))
    if _shape(got) != _shape(want):
        ctx.fail("shape", "%s: shape %s, numpy gives %s" % (what, _shape(got), _shape(want)))
        return
    ctx.expect_model(got, M.from_numeric(numpy.asarray(want, dtype=object)), what)


def _aliased_out(ctx, name, x, y):
    """The division written over its own dividend (``out=`` is the first argument, the in-place operator): numpy's values."""
    import numpoly

    if tuple(numpy.broadcast_shapes(numpy.shape(x), numpy.shape(y))) != tuple(numpy.shape(x)) or numpy.ndim(x) == 0:
        return
    for how in ("out=dividend", "in-place operator", "out=view of dividend"):
        xa = numpy.array(x, copy=True)
        try:
            if how == "in-place operator":
                want = xa.copy()
                if name == "floor_divide":
                    want //= y
                else:
                    want /= y
            else:
                want = getattr(numpy, name)(xa, y, out=xa.copy())
        except Exception:
            continue  # numpy refuses this output type (true division into integers): not in the claim
        a = numpoly.polynomial(numpy.array(x, copy=True))
        try:
            if how == "out=dividend":
                r = getattr(numpoly, name)(a, y, out=a)
            elif how == "in-place operator":
                r = a
                if name == "floor_divide":
                    r //= y
                else:
                    r /= y
            else:
                r = getattr(numpy, name)(a, y, out=a.T.T)  # (a view sharing the dividend's storage; poly[...] is a copy)
        except Exception as e:
            ctx.unexpected_exception(e, "%s with %s" % (name, how))
            continue
        _cmp_arrays(ctx, r, want, "%s with %s" % (name, how), want_poly=True)
        _cmp_arrays(ctx, a, want, "%s with %s: the dividend afterwards" % (name, how), want_poly=True)


def _rounding_natively(ctx):
    """around / round (function, numpy spelling, method) on float constants for every number of decimals -3..40 and 100, 308, 400:
    numpy's values (nan-aware, exact)."""
    import numpoly

    vals = numpy.array([1e-20, 4e-19, 6e-19, 1 / 3000.0, 2.5, -0.125, 123456.789, 1e15 + 0.3, 5e-324, -7.5e-10])
    for shape in ((10,), (2, 5), ()):
        x = vals.reshape(shape) if shape else numpy.array(vals[3])
        for d in list(range(-3, 41)) + [100, 308, 400]:
            with numpy.errstate(all="ignore"):
                want = numpy.around(x, d)
                for label, f in (("numpoly.around", lambda: numpoly.around(numpoly.polynomial(x), d)), ("numpy.around(poly)", lambda: numpy.around(numpoly.polynomial(x), d)),
                                 ("numpy.round(poly)", lambda: numpy.round(numpoly.polynomial(x), d)), ("poly.round()", lambda: numpoly.polynomial(x).round(d)),
                                 ("numpoly.around(decimals=)", lambda: numpoly.around(numpoly.polynomial(x), decimals=d))):
                    try:
                        got = f()
                        got = got.tonumpy() if isinstance(got, numpoly.ndpoly) else numpy.asarray(got)
                    except Exception as e:
                        ctx.unexpected_exception(e, "%s with %d decimals" % (label, d))
                        continue
                    if got.shape != want.shape or not numpy.array_equal(got, want, equal_nan=True):
                        ctx.fail("value", "%s with %d decimals on %s gives %s, numpy %s" % (label, d, numpy.asarray(x).tolist(), got.tolist(), want.tolist()))
                        break


def body(ctx: H.BaseCtx):
    import numpoly

    case = ctx.case
    fn, par = case["fn"], case.get("par", {})
    if fn == "rounding-native":
        if not ctx.symbolic and H.NATIVE_RUN_INDEX == 0:
            _rounding_natively(ctx)
        return
    x, p = _vals(ctx, case["operands"][0])
    y = q = None
    if len(case["operands"]) > 1:
        y, q = _vals(ctx, case["operands"][1])
    try:
        if fn in ("sum", "prod", "cumsum", "mean", "amax", "amin"):
            kw = {"axis": _ax(par.get("axis"))}
            if par.get("keepdims") and fn not in ("cumsum",):
                kw["keepdims"] = True
            got = getattr(numpoly, fn)(p, **kw)
            want = getattr(numpy, fn)(x, **kw)
            _cmp_arrays(ctx, got, want, "%s(axis=%s%s)" % (fn, par.get("axis"), ", keepdims" if par.get("keepdims") else ""), want_poly=True)
        elif fn in ("argmax", "argmin"):
            got = getattr(numpoly, fn)(p, axis=par.get("axis"))
            want = getattr(numpy, fn)(x, axis=par.get("axis"))
            if tuple(numpy.shape(got)) != tuple(numpy.shape(want)):
                ctx.fail("shape", "%s(axis=%s): shape %s, numpy gives %s" % (fn, par.get("axis"), numpy.shape(got), numpy.shape(want)))
            elif [int(v) for v in numpy.asarray(got).reshape(-1)] != [int(v) for v in numpy.asarray(want).reshape(-1)]:
                ctx.fail("value", "%s(axis=%s) is %s, numpy gives %s (first occurrence on ties)" % (fn, par.get("axis"), numpy.asarray(got).tolist(), numpy.asarray(want).tolist()))
        elif fn in ("max_method", "min_method"):
            got = getattr(p, fn[:3])(axis=par.get("axis"))
            want = getattr(numpy, "a" + fn[:3])(x, axis=par.get("axis"))
            _cmp_arrays(ctx, got, want, "poly.%s(axis=%s)" % (fn[:3], par.get("axis")), want_poly=True)
        elif fn == "compare":
            import operator

            for name, op_, npf in (("<", operator.lt, "less"), ("<=", operator.le, "less_equal"), (">", operator.gt, "greater"), (">=", operator.ge, "greater_equal"), ("==", operator.eq, "equal"), ("!=", operator.ne, "not_equal")):
                want = getattr(numpy, npf)(x, y)
                _cmp_arrays(ctx, op_(p, q), want, "constant %s constant" % name)
                _cmp_arrays(ctx, getattr(numpoly, npf)(p, y), want, "numpoly.%s(poly, array)" % npf)
            _cmp_arrays(ctx, numpoly.maximum(p, q), numpy.maximum(x, y), "maximum", want_poly=True)
            _cmp_arrays(ctx, numpoly.minimum(p, q), numpy.minimum(x, y), "minimum", want_poly=True)
        elif fn == "logic":
            ax = par.get("axis")
            for kd in (False, True):
                kw = {"axis": ax, "keepdims": True} if kd else {"axis": ax}
                _cmp_arrays(ctx, numpoly.any(p, **kw), numpy.any(x != 0, **kw), "any(%s)" % kw)
                _cmp_arrays(ctx, numpoly.all(p, **kw), numpy.all(x != 0, **kw), "all(%s)" % kw)
                _cmp_arrays(ctx, numpoly.count_nonzero(p, **kw), numpy.count_nonzero(x != 0, **kw), "count_nonzero(%s)" % kw)
            if y is not None:
                _cmp_arrays(ctx, numpoly.logical_and(p, q), numpy.logical_and(x != 0, y != 0), "logical_and")
                _cmp_arrays(ctx, numpoly.logical_or(p, q), numpy.logical_or(x != 0, y != 0), "logical_or")
            nz = numpoly.nonzero(p)
            want = numpy.nonzero(x != 0)
            if len(nz) != len(want) or any(numpy.asarray(a).tolist() != numpy.asarray(b).tolist() for a, b in zip(nz, want)):
                ctx.fail("value", "nonzero is %s, numpy gives %s" % ([numpy.asarray(a).tolist() for a in nz], [numpy.asarray(b).tolist() for b in want]))
        elif fn == "intdiv":
            # numeric division functions on integer constants (floor semantics); divisor entries are non-zero
            import z3
            from ..engine import ENGINE, z3_atom

            if ctx.symbolic:
                for a in S.spec_atoms(dict(case["operands"][1], kind="array")):
                    ENGINE.assume(z3_atom(a) != 0)
            elif any(int(v) == 0 for v in numpy.asarray(y).reshape(-1)):
                return
            _cmp_arrays(ctx, numpoly.floor_divide(p, q), numpy.floor_divide(x, y), "floor_divide", want_poly=True)
            _cmp_arrays(ctx, numpoly.remainder(p, q), numpy.remainder(x, y), "remainder", want_poly=True)
            _cmp_arrays(ctx, numpy.floor_divide(p, y), numpy.floor_divide(x, y), "numpy.floor_divide(poly, array)", want_poly=True)
            _cmp_arrays(ctx, p // y, numpy.floor_divide(x, y), "poly // array", want_poly=True)
            _aliased_out(ctx, "floor_divide", x, y)
            if not ctx.symbolic:  # numpy has no object loop for divmod: native runs only (fidelity / replay)
                dq, dr = numpoly.divmod(p, q)
                wq, wr = numpy.divmod(x, y)
                _cmp_arrays(ctx, dq, wq, "divmod[0]", want_poly=True)
                _cmp_arrays(ctx, dr, wr, "divmod[1]", want_poly=True)
        elif fn == "truediv":
            import z3
            from ..engine import ENGINE, z3_atom

            if ctx.symbolic:
                for a in S.spec_atoms(dict(case["operands"][1], kind="array")):
                    ENGINE.assume(z3_atom(a) != 0)
            elif any(int(v) == 0 for v in numpy.asarray(y).reshape(-1)):
                return
            want = x / y
            _cmp_arrays(ctx, numpoly.true_divide(p, q), want, "true_divide", want_poly=True)
            _cmp_arrays(ctx, numpy.true_divide(p, y), want, "numpy.true_divide(poly, array)", want_poly=True)
            _aliased_out(ctx, "true_divide", x, y)
        elif fn == "nonconst-divisor":
            # a divisor with a non-zero non-constant coefficient must be refused by the *numeric* division functions
            q0 = numpoly.variable()
            d = q * q0 + 1
            for name, f in (("floor_divide", lambda: numpoly.floor_divide(p, d)), ("numpy.floor_divide", lambda: numpy.floor_divide(p, d)), ("true_divide", lambda: numpoly.true_divide(p, d)),
                            ("numpy.true_divide", lambda: numpy.true_divide(p, d)), ("remainder", lambda: numpoly.remainder(p, d)), ("divmod", lambda: numpoly.divmod(p, d)), ("poly // poly", lambda: p // d)):
                nonconst = any(bool(v != 0) for v in numpy.asarray(y, dtype=object).reshape(-1))
                try:
                    f()
                    exc = None
                except Exception as e:
                    exc = e
                if nonconst:
                    ctx.expect_exception(exc, [numpoly.FeatureNotSupported], "%s with a non-constant divisor" % name)
                elif exc is not None and not isinstance(exc, (ZeroDivisionError,)):
                    pass  # constant divisor 1: anything numpy does is fine here
        elif fn == "isclose":
            kw = par.get("kw", {})
            want = numpy.isclose(x, y, **kw) if not ctx.symbolic else __import__("nv.stubs", fromlist=["PROXY"]).PROXY.isclose(x, y, **kw)
            _cmp_arrays(ctx, numpoly.isclose(p, q, **kw), want, "isclose%s" % kw)
            _cmp_arrays(ctx, numpy.isclose(p, y, **kw), want, "numpy.isclose(poly, array)%s" % kw)
            wa = bool(numpy.all(want))
            if bool(numpoly.allclose(p, q, **kw)) != wa:
                ctx.fail("value", "allclose%s is %s, numpy gives %s" % (kw, not wa, wa))
        elif fn == "power":
            # exponents are literals 0..3 (the second operand, itself a constant polynomial in any representation)
            want = numpy.asarray(x, dtype=object) ** numpy.asarray(y, dtype=object) if ctx.symbolic else x ** y
            _cmp_arrays(ctx, numpoly.power(p, q), want, "power(constant, constant)", want_poly=True)
            _cmp_arrays(ctx, numpy.power(p, q), want, "numpy.power(constant, constant)", want_poly=True)
            _cmp_arrays(ctx, p ** q, want, "constant ** constant", want_poly=True)
        elif fn == "diff":
            _cmp_arrays(ctx, numpoly.diff(p, n=par.get("n", 1), axis=par.get("axis", -1)), numpy.diff(x, n=par.get("n", 1), axis=par.get("axis", -1)), "diff", want_poly=True)
            _cmp_arrays(ctx, numpoly.ediff1d(p), numpy.ediff1d(x), "ediff1d", want_poly=True)
    except Exception as e:
        ctx.unexpected_exception(e, fn)


def body_for(case):
    return body


def run_case(case: Dict) -> Dict:
    specs = [dict(s, kind="array") for s in case["operands"]]
    lim = case.get("limits", {})
    return H.explore_case(case, body, H.collect_atoms(specs), max_paths=lim.get("max_paths", 2000), time_budget=lim.get("time", 45.0), int_atoms=case.get("fn") != "nonconst-divisor", options=case.get("options"))


def gen_cases(tier: str, seed: int) -> List[Dict]:
    rng = random.Random(11000 + seed)
    quick = tier == "quick"
    lim = H.limits(tier, quick=(1500, 40.0), thorough=(20000, 300.0))
    cases: List[Dict] = []
    n = 0

    def arr(prefix, shape, atoms, ties=True):
        size = S.size_of(shape)
        slots: List[Any] = []
        used = 0
        for _ in range(size):
            r = rng.random()
            if ties and used and r < 0.3:
                slots.append("%s%d" % (prefix, rng.randrange(used)))  # repeated value
            elif used < atoms and r < 0.8:
                slots.append("%s%d" % (prefix, used))
                used += 1
            else:
                slots.append(rng.choice([0, 1, -1, 2, -3, 5]))
        # representation of the constant polynomial built from the array (see _vals): tidy, raw with zero terms around, retained
        sp = {"kind": "array", "shape": list(shape), "slots": slots, "repr": rng.choice([0, 0, 1, 2, 3])}
        if len(shape) >= 2 and rng.random() < 0.5:
            sp["layout"] = rng.choice(["F", "strided", "readonly"])  # the memory layout of the numeric operand is not part of its value
        return sp

    def add(fn, operands, par=None):
        nonlocal n
        n += 1
        cases.append({"id": "%s-%03d-%s" % (PROP, n, fn), "op": fn, "fn": fn, "operands": operands, "par": par or {}, "limits": lim})

    shapes = [(3,), (2, 2), (2, 3), (2, 1, 2)] if quick else [(1,), (3,), (4,), (2, 2), (2, 3), (3, 2), (2, 1, 2), (2, 2, 2)]
    A = 3 if quick else 5
    for shape in shapes:
        nd = len(shape)
        axes = [None] + list(range(-nd, nd))
        for ax in axes:
            for f in ("sum", "cumsum", "mean", "amax", "amin"):
                if quick and rng.random() < 0.4:
                    continue
                add(f, [arr("a", shape, A)], {"axis": ax, "keepdims": f in ("sum", "amax", "amin") and rng.random() < 0.3})
            if S.size_of(shape) <= 4:
                add("prod", [arr("a", shape, 3)], {"axis": ax})
            add("argmax", [arr("a", shape, A)], {"axis": ax})
            add("argmin", [arr("a", shape, A)], {"axis": ax})
            add("logic", [arr("a", shape, A), arr("b", shape, 2)], {"axis": ax})
        for t in itertools.combinations(range(nd), 2):
            add("sum", [arr("a", shape, A)], {"axis": list(t)})
            add("amax", [arr("a", shape, A)], {"axis": list(t)})
        add("max_method", [arr("a", shape, A)], {"axis": rng.choice(axes)})
        add("min_method", [arr("a", shape, A)], {"axis": rng.choice(axes)})
        add("compare", [arr("a", shape, 2), arr("b", shape if rng.random() < 0.6 else (shape[-1],), 2)])
        nz = lambda sp: dict(sp, slots=[(2 if s == 0 else s) for s in sp["slots"]])  # no literal zero among the divisor's entries
        add("intdiv", [arr("a", shape, 2, ties=False), nz(arr("b", shape if rng.random() < 0.5 else (), 1, ties=False))])
        add("truediv", [arr("a", shape, 2, ties=False), nz(arr("b", (), 1, ties=False))])
        add("nonconst-divisor", [arr("a", shape, 1), arr("b", (), 1)])
        eb = {"kind": "array", "shape": list(shape), "slots": [rng.choice([0, 1, 2, 3]) for _ in range(S.size_of(shape))], "repr": rng.choice([0, 1, 2])}
        add("power", [arr("a", shape, 2, ties=False), eb])
        add("isclose", [arr("a", shape, 2, ties=False), arr("b", shape, 2, ties=False)], {"kw": rng.choice([{}, {"rtol": 0.25, "atol": 0}, {"rtol": 0, "atol": 2}])})
        for ax in range(nd):
            add("diff", [arr("a", shape, A)], {"axis": ax, "n": rng.choice([1, 2])})
    # rounding functions: native only (floats), every number of decimals
    cases.append({"id": "%s-%03d-rounding-native" % (PROP, n + 1), "op": "rounding-native", "fn": "rounding-native", "operands": [{"kind": "array", "shape": [], "slots": [1]}], "par": {}, "native_only": True, "limits": lim})
    return cases


def main(argv=None) -> int:
    return H.simple_main(
        PROP, MOD, gen_cases,
        rule="one case = (function, axis/keepdims arguments, array structure with repeated values); non-trivial = >= 2 feasible paths (order / tie / zero forks)",
        bounds={"shapes": "1-d..3-d, <= 8 elements", "values": "integer atoms (<= 3 quick / 5 thorough per array) + literals, repeated values for ties", "axes": "all axes, axis pairs, keepdims",
                "claimed": "sum prod cumsum mean diff ediff1d amax amin argmax argmin max/min methods, six comparisons, maximum/minimum, any all count_nonzero nonzero logical_and/or, "
                "floor_divide remainder divmod true_divide on integer constants, refusal of non-constant divisors, isclose/allclose on finite integer values",
                "outside": "rounding functions (around ceil floor rint round), NaN/inf handling of isclose/allclose, float division rounding, exact result dtypes beyond bool / integer kind, shape functions (C09)"},
        functions=["numpoly.sum/prod/cumsum/mean/diff/ediff1d", "amax", "amin", "argmax", "argmin", "sortable_proxy", "less..not_equal", "maximum", "minimum", "any", "all", "count_nonzero", "nonzero",
                   "logical_and", "logical_or", "floor_divide", "remainder", "divmod", "true_divide"],
        assumptions=["reference = numpy's own function on the object array of the same symbolic values (numpy's object loops = numpy's documented semantics)",
                     "floor(x/y) is a fresh integer k with k <= x/y < k+1"],
        argv=argv,
    )


if __name__ == "__main__":
    sys.exit(main())
