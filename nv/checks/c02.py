"""C02 — evaluation and substitution compute the polynomial's value (E1).

Symbolic: polynomial coefficients and the *values* of numeric arguments.  Enumerated: structure of
the polynomial, argument assignment (positional/keyword/None, shapes, numeric vs polynomial)."""
from __future__ import annotations

import random
import sys
import time
from typing import Dict, List

import numpy

from .. import harness as H
from .. import model as M
from .. import structures as S
from ..common import check_invariants, snapshot_args, check_unmodified

PROP = "C02"
MOD = "nv.checks.c02"


def _model_call(mp, names, env_models):
    """mp: model array of the polynomial; env_models: {name: model array}; result shape = poly.shape + broadcast(arg shapes)."""
    arg_names = list(env_models)
    arrs = [env_models[n] for n in arg_names]
    bshape = numpy.broadcast_shapes(*[tuple(a.shape) for a in arrs]) if arrs else ()
    barrs = [numpy.broadcast_to(a, bshape) for a in arrs]
    pshape = tuple(mp.shape)
    out = numpy.empty(pshape + tuple(bshape), dtype=object)
    for pidx in numpy.ndindex(*pshape):
        elem = mp[pidx] if pshape else mp.item()
        for aidx in numpy.ndindex(*bshape):
            env = {n: (b[aidx] if bshape else b.item()) for n, b in zip(arg_names, barrs)}
            out[pidx + aidx] = elem.subst(env)
    return out


def body(ctx: H.BaseCtx):
    if ctx.case.get("mode") == "special":
        return body_special(ctx)
    return _body(ctx)


def _body(ctx: H.BaseCtx):
    import numpoly

    case = ctx.case
    pspec = case["poly"]
    p = ctx.build(pspec)
    mp = ctx.model(pspec)
    names = list(pspec["names"])
    args, margs = [], []
    for a in case.get("args", []):
        if a is None:
            args.append(None)
            margs.append(None)
        else:
            args.append(ctx.build(a))
            margs.append(ctx.model(a))
    kwargs = {k: ctx.build(v) for k, v in case.get("kwargs", {}).items()}
    mkwargs = {k: ctx.model(v) for k, v in case.get("kwargs", {}).items()}
    watched = [p] + [a for a in args if a is not None] + list(kwargs.values())
    snap = snapshot_args(watched)
    mode = case.get("mode", "direct")
    if mode == "error":
        try:
            r = p(*args, **kwargs)
            exc = None
        except Exception as e:
            exc = e
        ctx.expect_exception(exc, [TypeError], "call with %s" % case.get("why"))
        check_unmodified(ctx, watched, snap)
        return
    env = {}
    for a, n in zip(margs, names):
        if a is not None:
            env[n] = a
    env.update(mkwargs)
    try:
        if mode == "staged":
            ks = list(kwargs)
            first = {ks[0]: kwargs[ks[0]]}
            rest = {k: kwargs[k] for k in ks[1:]}
            r1 = p(*args, **first)
            if isinstance(r1, numpoly.ndpoly):
                r = r1(**rest)
            else:
                r = r1
                # constant after the first stage: later arguments cannot matter; shape is checked below only if no rest shapes
        elif mode == "numpoly.call":
            # the function form takes the positional values as any iterable and the keyword values as any mapping
            form = case.get("argform", "tuple")
            pos = {"tuple": lambda: tuple(args), "list": lambda: list(args), "generator": lambda: (a_ for a_ in args), "iterator": lambda: iter(list(args))}[form]()
            r = numpoly.call(p, pos, dict(kwargs)) if form != "tuple" else numpoly.call(p, tuple(args), kwargs)
        else:
            r = p(*args, **kwargs)
    except Exception as e:
        ctx.unexpected_exception(e, "call")
        check_unmodified(ctx, watched, snap)
        return
    if mode == "staged":
        # staged: shape is poly.shape + shape(first) then + shape(rest) — compare with staged model
        ks = list(mkwargs)
        m1 = _model_call(mp, names, {**{n: a for a, n in zip(margs, names) if a is not None}, ks[0]: mkwargs[ks[0]]})
        if isinstance(r, numpoly.ndpoly) or len(ks) > 1:
            exp = _model_call(m1, names, {k: mkwargs[k] for k in ks[1:]}) if len(ks) > 1 and isinstance(r1, numpoly.ndpoly) else m1
        else:
            exp = m1
    else:
        exp = _model_call(mp, names, env)
    full = all(n in env for n in names) and all(not (isinstance(v, dict)) for v in env.values())
    numeric_full = all(n in env for n in names) and all(
        s is not None and s.get("kind", "poly") != "poly" for s in list(case.get("args", [])) + list(case.get("kwargs", {}).values())
    )
    if numeric_full and mode != "staged" and isinstance(r, numpoly.ndpoly):
        ctx.fail("type", "all indeterminates given numbers but result is ndpoly")
    ctx.expect_model(r, exp, "value")
    if isinstance(r, numpoly.ndpoly):
        check_invariants(ctx, r, "result")
    check_unmodified(ctx, watched, snap)


def body_for(case):
    return body


def _atoms(case) -> List[str]:
    out: List[str] = []
    specs = [case["poly"]] + [a for a in case.get("args", []) if a] + list(case.get("kwargs", {}).values())
    for s in specs:
        for a in S.spec_atoms(s):
            if a not in out:
                out.append(a)
    return out


def body_special(ctx: H.BaseCtx):
    """Native only.  (1) Full evaluation of special-content polynomials at real / complex points against the term sum computed with
    numpy on the same floats (parts compared separately, rtol 1e-12).  (2) The same point handed over in different carriers (python
    number, numpy scalar, 0-d array, constant polynomial; positional or keyword; all at once or staged) gives the same value."""
    import numpoly
    from .. import special as SP

    if ctx.symbolic:
        return
    points = [(2.0, -0.5), (1.5 + 1e-20j, 2.0), (1j, 1 - 1j), (0.5, 3e-15j)]
    with numpy.errstate(all="ignore"):
        for label, p in SP.zoo((2,)):
            if "non-finite" in label:
                continue
            for x, y in points:
                ref = numpy.zeros(p.shape, dtype=numpy.result_type(p.dtype, numpy.complex128 if isinstance(x, complex) or isinstance(y, complex) else numpy.float64))
                for (e0, e1), c in SP.terms(p).items():
                    ref = ref + c * (x ** e0) * (y ** e1)
                fresh = lambda: SP.zoo((2,), only=label)[0][1]
                carriers = {
                    "python numbers": lambda: fresh()(x, y),
                    "keywords": lambda: fresh()(q1=y, q0=x),
                    "numpy scalars": lambda: fresh()(numpy.asarray(x)[()], numpy.asarray(y)[()]),
                    "0-d arrays": lambda: fresh()(numpy.array(x), numpy.array(y)),
                    "constant polynomials": lambda: fresh()(numpoly.polynomial(x), numpoly.polynomial(y)),
                    "one constant polynomial": lambda: fresh()(numpoly.polynomial(x), y),
                    "staged": lambda: fresh()(q0=x)(q1=y),
                    "numpoly.call": lambda: numpoly.call(fresh(), (x, y)),
                }
                for cname, f in carriers.items():
                    try:
                        got = f()
                    except Exception as e:
                        ctx.unexpected_exception(e, "evaluation of %s at (%s, %s) given as %s" % (label, x, y, cname))
                        continue
                    if isinstance(got, numpoly.ndpoly):
                        ctx.fail("type", "full evaluation of %s at (%s, %s) given as %s returns a polynomial" % (label, x, y, cname))
                        continue
                    rt = 1e-12 if p.dtype.itemsize >= 8 and p.dtype != numpy.complex64 else 1e-5
                    if not SP.close_parts(got, ref, rtol=rt):
                        ctx.fail("value", "%s evaluated at (%s, %s) given as %s: %s, the term sum gives %s" % (label, x, y, cname, numpy.asarray(got).tolist(), numpy.asarray(ref).tolist()))


def run_case(case: Dict) -> Dict:
    lim = case.get("limits", {})
    return H.explore_case(case, body, _atoms(case), max_paths=lim.get("max_paths", 2000), time_budget=lim.get("time", 60.0))


def gen_cases(tier: str, seed: int) -> List[Dict]:
    rng = random.Random(2000 + seed)
    quick = tier == "quick"
    lim = {"max_paths": 2000 if quick else 20000, "time": 45.0 if quick else 300.0}
    cases: List[Dict] = []
    n = 0

    def add(tag, **kw):
        nonlocal n
        n += 1
        kw.update({"id": "%s-%03d-%s" % (PROP, n, tag), "op": "call:" + tag, "limits": lim})
        cases.append(kw)

    def poly(prefix, names, shape, nterms, b, maxexp=2):
        exps = S.exps_for(len(names), maxexp, rng, nterms, include_const=rng.random() < 0.5)
        return S.make_poly_spec(prefix, names, exps, shape, rng, b, mode=rng.choice(["raw", "clean"]))

    def num(prefix, shape, b=2):
        if shape == ():
            sp = S.make_numeric_spec(prefix, "scalar", (), rng, 1)
            sp["np"] = True
            return sp
        return S.make_numeric_spec(prefix, rng.choice(["array", "array", "list"]), shape, rng, b)

    pshapes = [(), (2,), (2, 2), (1, 2), (2, 1, 2)] if quick else [(), (1,), (2,), (3,), (2, 2), (1, 2), (2, 1), (2, 1, 2), (1, 2, 2)]
    ashapes = [(), (2,), (3,), (1, 2), (2, 1), (2, 1, 3)]
    reps = 10 if quick else 700
    for _ in range(reps):
        for psh in pshapes:
            names = rng.choice([("q0",), ("q0", "q1"), ("q0", "q2"), ("q2", "q10"), ("q0", "q1", "q2")])
            p = poly("a", names, psh, rng.choice([1, 2, 3]), 3)
            # full numeric, positional
            sh1 = rng.choice(ashapes)
            argspecs = []
            for i, nm in enumerate(names):
                sh = sh1 if i == 0 else rng.choice([(), sh1, (1,)] if sh1 else [(), (2,)])
                if not S.broadcastable(sh, sh1):
                    sh = ()
                argspecs.append(num("xyz"[i], sh))
            add("full-pos", poly=p, args=argspecs, kwargs={}, mode=rng.choice(["direct", "numpoly.call"]))
            # keyword / None mixes, partial
            kw = {}
            args = []
            npos = rng.randrange(len(names) + 1)  # positional prefix (values or None placeholders), keywords after it
            for i, nm in enumerate(names):
                if i < npos:
                    args.append(num("xyz"[i], rng.choice([(), (2,)])) if rng.random() < 0.6 else None)
                elif rng.random() < 0.7:
                    kw[nm] = num("xyz"[i], rng.choice([(), (2,)]))
            add("mixed", poly=p, args=args, kwargs=kw, mode="direct")
    # function form numpoly.call(poly, args, kwargs) with one-shot iterables for the positional values, alone and together with keywords
    for form in ("generator", "iterator", "list"):
        for psh in [(), (2,)]:
            p3 = poly("a", ("q0", "q1", "q2"), psh, 3, 3)
            add("callform", poly=p3, args=[num("x", ()), num("y", rng.choice([(), (2,)]))], kwargs={"q2": num("z", ())}, mode="numpoly.call", argform=form)
            add("callform", poly=p3, args=[num("x", ()), num("y", ()), num("z", ())], kwargs={}, mode="numpoly.call", argform=form)
            add("callform", poly=p3, args=[num("x", ())], kwargs={"q1": num("y", ())}, mode="numpoly.call", argform=form)
    # polynomial-valued arguments incl. swaps
    for psh in [(), (2,)] + ([] if quick else [(2, 2)]):
        p = poly("a", ("q0", "q1"), psh, 3, 3)
        swap0 = {"kind": "poly", "names": ["q0", "q1"], "exps": [[0, 1]], "shape": [], "slots": [[1]], "mode": "raw"}
        swap1 = {"kind": "poly", "names": ["q0", "q1"], "exps": [[1, 0]], "shape": [], "slots": [[1]], "mode": "raw"}
        add("swap", poly=p, args=[], kwargs={"q0": swap0, "q1": swap1}, mode="direct")
        sub = poly("b", ("q1",), (), 2, 2)
        add("subst-poly", poly=p, args=[sub], kwargs={}, mode="direct")
        sub2 = poly("b", ("q2",), (2,), 2, 2)
        add("subst-newvar", poly=p, args=[None, sub2], kwargs={}, mode="direct")
    # multi-term polynomial arguments under exponents >= 3 and two different multi-term arguments meeting in one term: the
    # substitution then multiplies factors with *different* exponent tables (p*p alone never does)
    for psh in [(), (2,)]:
        # (few atoms: the cubes of symbolic coefficients make the branch conditions non-linear)
        p = S.make_poly_spec("a", ("q0", "q1"), [[3, 0], [1, 1], [0, 2], [0, 0]], psh, rng, 2, mode="raw", zero_prob=0.0, literal_prob=0.3)
        b = S.make_poly_spec("b", ("q1",), [[0], [1]], (), rng, 0, mode="raw", zero_prob=0.0, literal_prob=1.0)  # literal: cubes of an atom make z3 hang
        c = S.make_poly_spec("c", ("q0", "q2"), [[1, 0], [0, 2]], (), rng, 0, mode="raw", zero_prob=0.0, literal_prob=1.0)
        add("subst-deep", poly=p, args=[b, c], kwargs={}, mode="direct")
        add("subst-deep", poly=p, args=[b], kwargs={}, mode="direct")
        # (literal-only argument here: with a symbolic one this case makes z3 run for minutes on a two-equation cubic query)
        blit = S.make_poly_spec("b", ("q1",), [[0], [1]], (), rng, 0, mode="raw", zero_prob=0.0, literal_prob=1.0)
        add("subst-deep", poly=p, args=[], kwargs={"q1": c, "q0": blit}, mode="direct")
    # polynomial arguments that are numbers in disguise: the zero polynomial stored as an all-zero non-constant term (what
    # q1 - q1 is under retain_coefficients=True, or a derivative / alignment result), constants storing such a term before the constant
    for psh in [(), (2,)]:
        p = poly("a", ("q0", "q1"), psh, 3, 3)
        zero1 = {"kind": "poly", "names": ["q1"], "exps": [[1]], "shape": [], "slots": [[0]], "mode": "raw"}
        zero2 = {"kind": "poly", "names": ["q0", "q1"], "exps": [[0, 1], [2, 0]], "shape": [], "slots": [[0], [0]], "mode": "raw"}
        const = {"kind": "poly", "names": ["q0", "q1"], "exps": [[1, 1], [0, 0]], "shape": [], "slots": [[0], [3]], "mode": "raw"}
        add("subst-disguised-number", poly=p, args=[zero1], kwargs={}, mode="direct")
        add("subst-disguised-number", poly=p, args=[], kwargs={"q1": zero2}, mode="direct")
        add("subst-disguised-number", poly=p, args=[const, zero1], kwargs={}, mode="direct")
        add("subst-disguised-number", poly=p, args=[num("x", ())], kwargs={"q1": const}, mode="direct")
    # renaming by a permutation that is not its own inverse (3-cycles need three indeterminates)
    def var(nm):
        return {"kind": "poly", "names": [nm], "exps": [[1]], "shape": [], "slots": [[1]], "mode": "raw"}

    for psh in [(), (2,)]:
        p3 = poly("a", ("q0", "q1", "q2"), psh, 3, 3)
        add("cycle", poly=p3, args=[var("q1"), var("q2"), var("q0")], kwargs={}, mode="direct")
        add("cycle", poly=p3, args=[], kwargs={"q0": var("q2"), "q1": var("q0"), "q2": var("q1")}, mode="direct")
        add("cycle", poly=p3, args=[var("q2"), None, var("q1")], kwargs={}, mode="direct")
        add("cycle", poly=p3, args=[var("q1")], kwargs={"q2": var("q0"), "q1": var("q2")}, mode="direct")
    # numeric and polynomial arguments mixed in one call (simultaneous substitution): the polynomial argument may mention
    # an indeterminate that is itself given a number
    for psh in [(), (2,)]:
        p = poly("a", ("q0", "q1"), psh, 3, 3)
        q1poly = {"kind": "poly", "names": ["q0", "q1"], "exps": [[0, 1]], "shape": [], "slots": [[1]], "mode": "raw"}
        add("mixed-subst", poly=p, args=[], kwargs={"q0": q1poly, "q1": num("y", ())}, mode="direct")
        add("mixed-subst", poly=p, args=[poly("b", ("q0", "q1"), (), 2, 2), num("y", rng.choice([(), (2,)]))], kwargs={}, mode="direct")
        add("mixed-subst", poly=p, args=[num("x", ())], kwargs={"q1": poly("b", ("q0",), (), 2, 2)}, mode="direct")
    # staged evaluation vs at once
    for psh in [(), (2,), (1, 2)]:
        p = poly("a", ("q0", "q1"), psh, 3, 3)
        add("staged", poly=p, args=[], kwargs={"q0": num("x", rng.choice([(), (2,)])), "q1": num("y", ())}, mode="staged")
        add("staged", poly=p, args=[], kwargs={"q1": num("y", ()), "q0": num("x", ())}, mode="staged")
    cases.append({"id": "%s-%03d-special-content" % (PROP, n + 1), "op": "call:special", "mode": "special", "poly": {"kind": "poly", "names": ["q0"], "exps": [[0]], "shape": [], "slots": [[1]], "mode": "raw"},
                  "args": [], "kwargs": {}, "limits": lim})
    n += 1
    # the three TypeError cases with symbolic values
    p = poly("a", ("q0", "q1"), (2,), 2, 3)
    add("err-unknown", poly=p, args=[], kwargs={"q7": num("x", ())}, mode="error", why="unknown name")
    add("err-double", poly=p, args=[num("x", ())], kwargs={"q0": num("y", ())}, mode="error", why="doubly supplied name")
    add("err-unknown2", poly=p, args=[num("x", ())], kwargs={"q2": num("y", (2,))}, mode="error", why="unknown name")
    return cases


def main(argv=None) -> int:
    args = H.std_args(argv)
    t0 = time.time()
    cases = gen_cases(args.tier, args.seed)
    reports = H.run_cases(MOD, cases, args)
    from .. import stubs

    return H.finish(
        PROP, MOD, args.tier, args.seed, reports, t0,
        level="model_checking",
        rule="one case = (polynomial structure, argument assignment); non-trivial = >= 2 feasible paths; distinct = distinct descriptors",
        bounds={"poly_shapes": "0-d..3-d", "arg_shapes": "() .. (2,1,3)", "terms": "<= 3", "exponents": "<= 2",
                "outside": "numeric carrier type of arguments (NEP-50 promotion of python ints, numpy scalar widths), float rounding"},
        assumptions=stubs.stub_list() + ["scalar numeric arguments travel as 0-d object arrays symbolically and as numpy.int64/float64 scalars in replays"],
        functions=["numpoly.call", "ndpoly.__call__", "numpoly.outer", "numpoly.isconstant", "numpoly.tonumpy", "numpoly.align_indeterminants"],
    )


if __name__ == "__main__":
    sys.exit(main())
