"""C01 — ring arithmetic is exact (E1).

Symbolic: every coefficient of every operand (z3 Reals).  Enumerated: operand structure
(shape, names, exponent rows, zero pattern, representation mode), partner kind, expression."""
from __future__ import annotations

import itertools
import operator
import random
import sys
import time
from typing import Any, Dict, List

import numpy

from .. import harness as H
from .. import model as M
from .. import structures as S
from ..common import check_invariants, snapshot_args, check_unmodified

PROP = "C01"
MOD = "nv.checks.c01"

BINOPS = {
    "add": operator.add,
    "sub": operator.sub,
    "mul": operator.mul,
}


def eval_expr(expr, ops, model: bool):
    """expr: int (operand index) | ["neg", e] | ["pos", e] | [binop, e1, e2] | ["pow", e, k] | ["powarr", e, arr]
    | ["fn", name, e1, e2] (numpoly.<name> spelling) | ["sq", e]"""
    import numpoly

    if isinstance(expr, int):
        return ops[expr]
    tag = expr[0]
    if tag == "neg":
        v = eval_expr(expr[1], ops, model)
        return M.amap(lambda x: -x, v) if model else -v
    if tag == "pos":
        v = eval_expr(expr[1], ops, model)
        return v if model else +v
    if tag == "sq":
        v = eval_expr(expr[1], ops, model)
        return M.amap(lambda x: x * x, v) if model else numpoly.square(v)
    if tag in BINOPS:
        a = eval_expr(expr[1], ops, model)
        b = eval_expr(expr[2], ops, model)
        if model:
            return M.amap(BINOPS[tag], a, b)
        return BINOPS[tag](a, b)
    if tag == "fn":
        a = eval_expr(expr[2], ops, model)
        b = eval_expr(expr[3], ops, model)
        if model:
            return M.amap(BINOPS[expr[1]], a, b)
        return getattr(numpoly, {"add": "add", "sub": "subtract", "mul": "multiply"}[expr[1]])(a, b)
    if tag == "pow":
        a = eval_expr(expr[1], ops, model)
        k = expr[2]
        if model:
            return M.amap(lambda x: x ** k, a)
        return a ** k
    if tag == "powarr":
        a = eval_expr(expr[1], ops, model)
        karr = numpy.array(expr[2], dtype=int)
        if model:
            return M.amap(lambda x, k: x ** int(k.terms[()].const_value()) if k.terms else x ** 0, a, M.from_numeric(karr))
        return a ** karr
    if tag == "powpoly":
        # the exponent is itself a polynomial array (a constant one, however it is stored)
        a = eval_expr(expr[1], ops, model)
        k = eval_expr(expr[2], ops, model)
        if model:
            return M.amap(lambda x, k: x ** int(k.terms[()].const_value()) if k.terms.get(()) is not None else x ** 0, a, k)
        return a ** k
    raise ValueError(tag)


def body(ctx: H.BaseCtx):
    case = ctx.case
    if case.get("op") == "special":
        return body_special(ctx)
    ops = [ctx.build(s) for s in case["operands"]]
    mops = [ctx.model(s) for s in case["operands"]]
    snap = snapshot_args(ops)
    try:
        r = eval_expr(case["expr"], ops, False)
    except Exception as e:  # library exceptions are results
        ctx.unexpected_exception(e, "expr")
        check_unmodified(ctx, ops, snap)
        return
    exp = eval_expr(case["expr"], mops, True)
    names = sorted({n for s in case["operands"] if s.get("kind", "poly") == "poly" for n in s["names"]})
    import numpoly

    if not isinstance(r, numpoly.ndpoly):
        ctx.fail("type", "result is %s, expected ndpoly" % type(r).__name__)
    ctx.expect_model(r, exp, "result")
    check_invariants(ctx, r, "result")
    check_unmodified(ctx, ops, snap)
    # the in-place spelling of the same operation (a op= b on a private copy of a): refused, or the same polynomial
    expr = case["expr"]
    if isinstance(expr, list) and expr[0] in ("add", "sub", "mul") and isinstance(expr[1], int) and isinstance(expr[2], int) and isinstance(r, numpoly.ndpoly):
        import operator

        a0, b0 = ops[expr[1]], ops[expr[2]]
        if isinstance(a0, numpoly.ndpoly) and a0.dtype == r.dtype and tuple(a0.shape) == tuple(r.shape):
            try:
                x = {"add": operator.iadd, "sub": operator.isub, "mul": operator.imul}[expr[0]](a0.copy(), b0)
            except Exception:
                x = None  # no room for the result in a: refusing is allowed
            if x is not None:
                ctx.expect_model(x, exp, "in-place operator (returned instead of refusing)")
            check_unmodified(ctx, ops, snap)
    # ring laws as direct cross-checks (same symbolic operands, same path)
    for law in case.get("laws", []):
        try:
            lhs = eval_expr(law[0], ops, False)
            rhs = eval_expr(law[1], ops, False)
        except Exception as e:
            ctx.unexpected_exception(e, "law")
            continue
        ctx.expect_model(lhs, M.to_model(rhs) if not isinstance(rhs, numpy.ndarray) or hasattr(rhs, "names") else M.to_model(rhs), "law")


def body_for(case):
    return body


def body_special(ctx: H.BaseCtx):
    """Native only: +, -, unary - term by term (exact, nan-aware); * against the sum of coefficient products formed with numpy on
    the same arrays (parts compared separately); ** against repeated *."""
    import numpoly
    from .. import special as SP

    if ctx.symbolic:
        return
    with numpy.errstate(all="ignore"):
        zoo = SP.zoo((2,))
        for la, a in zoo:
            for lb, b in zoo[::3]:
                ta, tb = SP.terms(a), SP.terms(b)
                keys = sorted(set(ta) | set(tb))
                z = lambda t, k, other: t.get(k, numpy.zeros(a.shape, dtype=other.dtype))
                try:
                    SP.expect_terms(ctx, a + b, {k: z(ta, k, a) + z(tb, k, b) for k in keys}, "(%s) + (%s)" % (la, lb))
                    SP.expect_terms(ctx, a - b, {k: z(ta, k, a) - z(tb, k, b) for k in keys}, "(%s) - (%s)" % (la, lb))
                    SP.expect_terms(ctx, -a, {k: -ta[k] for k in ta}, "-(%s)" % la)
                    if "non-finite" in la or "non-finite" in lb:
                        continue
                    prod = {}
                    for ka, ca in ta.items():
                        for kb, cb in tb.items():
                            k = tuple(x + y for x, y in zip(ka, kb))
                            prod[k] = prod.get(k, 0) + ca * cb
                    got = SP.terms(a * b)
                    rt = 1e-12 if a.dtype.itemsize >= 8 and b.dtype.itemsize >= 8 and numpy.complex64 not in (a.dtype, b.dtype) else 1e-5
                    for k, want in prod.items():
                        g = got.get(k, numpy.zeros(a.shape))
                        if not SP.close_parts(g, want, rtol=rt):
                            ctx.fail("value", "(%s) * (%s): term %s is %s, the sum of coefficient products gives %s" % (la, lb, k, numpy.asarray(g).tolist(), numpy.asarray(want).tolist()))
                            break
                    for k, g in got.items():
                        if k not in prod and numpy.any(g != 0):
                            ctx.fail("value", "(%s) * (%s): unexpected term %s = %s" % (la, lb, k, g.tolist()))
                except Exception as e:
                    ctx.unexpected_exception(e, "arithmetic on (%s), (%s)" % (la, lb))


def run_case(case: Dict) -> Dict:
    atoms: List[str] = []
    for s in case["operands"]:
        for a in S.spec_atoms(s):
            if a not in atoms:
                atoms.append(a)
    lim = case.get("limits", {})
    return H.explore_case(case, body, atoms, max_paths=lim.get("max_paths", 2000), time_budget=lim.get("time", 60.0))


# --------------------------------------------------------------------------------------
# case generation
# --------------------------------------------------------------------------------------

SHAPE_PAIRS_QUICK = [
    ((), ()),
    ((2,), ()),
    ((), (2,)),
    ((2,), (2,)),
    ((1,), (3,)),
    ((2, 1), (1, 2)),
    ((2, 2), (2,)),
    ((2,), (2, 1)),
    ((1, 2), (2, 2)),
    ((2, 1, 2), (2,)),
    ((1, 2, 2), (2, 1, 1)),
    ((2, 2, 2), ()),
]
NAME_PAIRS = [
    (("q0",), ("q0",)),
    (("q0", "q1"), ("q0", "q1")),
    (("q0", "q2"), ("q1",)),
    (("q10",), ("q2",)),
    (("q0", "q1"), ("q1",)),
    (("q1",), ("q0", "q1", "q2")),
    (("q2", "q10"), ("q0", "q2")),
    # the same names stored in a different order (numpoly.symbols("q2 q0") gives such leaves)
    (("q1", "q0"), ("q0", "q1")),
    (("q2", "q0"), ("q0", "q2")),
    (("q10", "q2"), ("q2", "q10")),
    (("q2", "q0", "q1"), ("q0", "q1", "q2")),
]


def gen_cases(tier: str, seed: int) -> List[Dict]:
    rng = random.Random(1000 + seed)
    cases: List[Dict] = []
    quick = tier == "quick"
    budget = 8 if quick else 12
    maxexp = 2 if quick else 3
    lim = {"max_paths": 2000 if quick else 20000, "time": 45.0 if quick else 400.0}

    def poly(prefix, names, shape, nterms, b, mode=None, share=None):
        exps = S.exps_for(len(names), maxexp, rng, nterms, include_const=rng.random() < 0.5)
        return S.make_poly_spec(prefix, names, exps, shape, rng, b, mode=mode or rng.choice(["raw", "raw", "clean"]), share_from=share)

    cid = 0

    def add(op, operands, expr, laws=None, tag=""):
        nonlocal cid
        cid += 1
        cases.append({"id": "%s-%03d-%s%s" % (PROP, cid, op, tag), "op": op, "operands": operands, "expr": expr, "laws": laws or [], "limits": lim})

    # 1. binary operators: poly (x) poly over shape pairs x name pairs
    reps = 6 if quick else 250
    for _ in range(reps):
        for (s1, s2) in SHAPE_PAIRS_QUICK:
            for op in ("add", "sub", "mul"):
                n1, n2 = rng.choice(NAME_PAIRS)
                if rng.random() < 0.5:
                    n1, n2 = n2, n1
                nt1 = rng.choice([1, 2, 3]) if S.size_of(s1) * S.size_of(s2) <= 8 else rng.choice([1, 2])
                nt2 = rng.choice([1, 2, 3]) if S.size_of(s1) <= 4 else rng.choice([1, 2])
                b1 = budget // 2
                a = poly("a", n1, s1, nt1, b1)
                bspec = poly("b", n2, s2, nt2, budget - b1, share=S.spec_atoms(a) or None)
                add(op, [a, bspec], [op, 0, 1])
    # 2. exact cancellation: p - p, p + (-p), (p - q) with shared atoms, same structure
    for shape in [(), (2,), (2, 2)] + ([] if quick else [(2, 1, 2)]):
        names = rng.choice([("q0",), ("q0", "q1"), ("q2", "q10")])
        a = poly("a", names, shape, 2, budget, mode="raw")
        add("sub", [a, a], ["sub", 0, 1], tag="-self")
        add("add", [a], ["add", 0, ["neg", 0]], tag="-negself")
        add("mul", [a], ["sub", ["mul", 0, 0], ["sq", 0]], tag="-sq")
    # 2b. operands that are strided views (poly.T, poly[::-1]) of a base array
    for op in ("add", "sub", "mul"):
        a = poly("a", ("q0", "q1"), (2, 3), 2, budget // 2, mode="raw")
        a["view"] = "T"
        b = poly("b", ("q1",), (3, 2), 1, budget // 2, mode="raw")
        b["view"] = "rev"
        add(op, [a, b], [op, 0, 1], tag="-views")
    # 3. partner kinds: scalar / ndarray / list on either side
    for kind in ("scalar", "array", "list"):
        for op in ("add", "sub", "mul"):
            for side in (0, 1):
                shape_p = rng.choice([(), (2,), (2, 2), (1, 2)])
                shape_n = () if kind == "scalar" else rng.choice([(2,), (1, 2), (2, 1)] if kind != "scalar" else [()])
                a = poly("a", rng.choice(S.NAME_SETS[:5]), shape_p, rng.choice([1, 2]), budget - 2)
                nspec = S.make_numeric_spec("c", kind, shape_n, rng, 2)
                operands = [a, nspec] if side == 0 else [nspec, a]
                add(op, operands, [op, 0, 1], tag="-%s%d" % (kind, side))
    # 3b. plain array partners in other memory layouts (Fortran order, strided view, read-only), 2-d with both sides > 1
    for layout in ("F", "strided", "readonly"):
        for op in ("add", "sub", "mul"):
            side = rng.choice([0, 1])
            shape_n = rng.choice([(2, 3), (3, 2)])
            a = poly("a", rng.choice(S.NAME_SETS[:3]), rng.choice([(), shape_n, (shape_n[1],)]), rng.choice([1, 2]), 2)
            nspec = S.make_numeric_spec("c", "array", shape_n, rng, 3)
            nspec["layout"] = layout
            operands = [a, nspec] if side == 0 else [nspec, a]
            add(op, operands, [op, 0, 1], tag="-array-%s%d" % (layout, side))
    # 3c. operands that declare many indeterminates (9, 10, 70) and use few: wide exponent rows
    for nn, ua, ub in ((9, [0, 8], [1, 8]), (10, [0, 9], [9]), (70, [0, 5], [1, 69]), (9, [0], [0, 8])):
        for op in ("add", "sub", "mul"):
            a = S.many_names_spec("a", nn, ua, rng.choice([(), (2,)]), rng, 2, maxexp=rng.choice([1, 3]))
            b = S.many_names_spec("b", nn, ub, (), rng, 2, maxexp=rng.choice([1, 200]))
            add(op, [a, b], [op, 0, 1], tag="-manynames%d" % nn)
    # 4. numpoly.<fn> spelling of the same operators (numpy spellings are C08's business)
    for op in ("add", "sub", "mul"):
        a = poly("a", ("q0", "q1"), (2,), 2, budget // 2)
        b = poly("b", ("q1",), (), 2, budget // 2)
        add(op, [a, b], ["fn", op, 0, 1], tag="-fn")
    # 5. powers: scalar exponents 0..4, array exponents incl. >= 3-d
    for k in range(0, 5 if not quick else 4):
        shape = rng.choice([(), (2,), (1, 2)])
        a = poly("a", rng.choice([("q0",), ("q0", "q1")]), shape, 2 if k <= 2 else 1, 3 if k >= 3 else 4)
        add("pow", [a], ["pow", 0, k], tag="-%d" % k)
    powarr_cases = [
        ((2,), [0, 2]),
        ((2,), [[1], [2]]),
        ((), [1, 2, 0]),
        ((2, 2), [[0, 1], [2, 1]]),
        ((1, 2), [[1], [2]]),
        ((2, 1), [1, 2]),
        ((2, 1, 2), [[[1, 2]], [[0, 1]]]),
        ((2,), [[[1, 0], [2, 1]]]),
        ((1, 2, 2), [[[1, 2], [0, 1]]]),
        ((2, 2, 2), [[[1, 0], [2, 1]], [[0, 2], [1, 1]]]),
    ]
    for shape, karr in powarr_cases:
        a = poly("a", rng.choice([("q0",), ("q0", "q1")]), shape, 1, 4, mode="raw")
        add("pow", [a], ["powarr", 0, karr], tag="-arr%dd" % numpy.array(karr).ndim)
    # names stored out of index order on the left (the in-place spelling writes the product's keys into that operand)
    for op in ("mul", "add", "sub"):
        for shape in [(2,), ()]:
            a = S.make_poly_spec("a", ("q1", "q0"), [[0, 0], [1, 3], [2, 2], [3, 1]], shape, rng, 3, zero_prob=0.0, literal_prob=0.3, mode="raw")  # (exponent rows closed under swapping the columns)
            b = S.make_poly_spec("b", ("q0", "q1"), [[0, 0]], (), rng, 1, zero_prob=0.0, literal_prob=0.0, mode="raw")
            for sp in (a, b):
                sp.pop("pre", None)
            add(op, [a, b], [op, 0, 1], tag="-unsorted-left")
    # exponents that are constant polynomials: tidy, storing an all-zero non-constant term before / after the constant, 0-d and arrays
    for shape, kshape, ks in [((2,), (2,), [2, 3]), ((), (), [2]), ((2,), (), [3]), ((1, 2), (2,), [0, 2])]:
        for kexps in ([[0]], [[1], [0]], [[0], [2]], [[0, 1], [0, 0], [1, 0]]):
            a = poly("a", rng.choice([("q0",), ("q0", "q1")]), shape, 2, 3, mode="raw")
            knames = ["q0", "q1"][: len(kexps[0])]
            kspec = {"kind": "poly", "names": knames, "exps": kexps, "shape": list(kshape), "slots": [list(ks) if not any(e) else [0] * len(ks) for e in kexps], "mode": "raw"}
            add("pow", [a, kspec], ["powpoly", 0, 1], tag="-polyexp")
    # 6. compositions (depth <= 3 quick / 4 thorough) + ring laws on the same operands
    ncomp = 40 if quick else 600
    for _ in range(ncomp):
        shapes = rng.choice([((), (), ()), ((2,), (), (2,)), ((2,), (2, 1), ()), ((1, 2), (2,), (2, 2))])
        names = [rng.choice(S.NAME_SETS[:5] + S.NAME_SETS[7:]) for _ in range(3)]
        ops_ = [poly("abc"[i], names[i], shapes[i], rng.choice([1, 2]), 2) for i in range(3)]
        depth = 3 if quick else rng.choice([3, 4])
        expr = _rand_expr(rng, depth, 3)
        laws = [
            [["mul", ["add", 0, 1], 2], ["add", ["mul", 0, 2], ["mul", 1, 2]]],
            [["mul", 0, 1], ["mul", 1, 0]],
            [["add", ["add", 0, 1], 2], ["add", 0, ["add", 1, 2]]],
        ]
        add("expr", ops_, expr, laws=[rng.choice(laws)], tag="-d%d" % depth)
    # 7. thorough: seeded random extra structures incl. 3 indeterminates / up to 6 terms
    if not quick:
        for _ in range(6000):
            s1, s2 = rng.choice(SHAPE_PAIRS_QUICK)
            n1 = rng.choice(S.NAME_SETS)
            n2 = rng.choice(S.NAME_SETS)
            op = rng.choice(["add", "sub", "mul"])
            a = poly("a", n1, s1, rng.choice([1, 2, 3, 4, 6]), 5)
            b = poly("b", n2, s2, rng.choice([1, 2, 3]), 5, share=S.spec_atoms(a) or None)
            add(op, [a, b], [op, 0, 1], tag="-rnd")
    cases.append({"id": "%s-%03d-special-content" % (PROP, len(cases) + 1), "op": "special", "operands": [], "expr": 0, "limits": cases[0]["limits"]})
    return cases


def _rand_expr(rng, depth, nops):
    if depth <= 1 or rng.random() < 0.15:
        return rng.randrange(nops)
    tag = rng.choice(["add", "sub", "mul", "mul", "neg", "pow"])
    if tag == "neg":
        return ["neg", _rand_expr(rng, depth - 1, nops)]
    if tag == "pow":
        return ["pow", _rand_expr(rng, depth - 2, nops), rng.choice([0, 1, 2])]
    return [tag, _rand_expr(rng, depth - 1, nops), _rand_expr(rng, depth - 1, nops)]


def main(argv=None) -> int:
    args = H.std_args(argv)
    t0 = time.time()
    cases = gen_cases(args.tier, args.seed)
    reports = H.run_cases(MOD, cases, args)
    return H.finish(
        PROP,
        MOD,
        args.tier,
        args.seed,
        reports,
        t0,
        level="model_checking",
        rule="one case = (operand structures, expression); non-trivial = the engine explored >= 2 feasible paths "
        "(at least one value-dependent branch); distinct = distinct case descriptors",
        bounds={
            "shapes": "0-d..3-d, sizes <= 8",
            "terms": "<= 3 (quick) / 6 (thorough)",
            "exponents": "<= 2 (quick) / 3 (thorough)",
            "atoms_per_case": "<= 6 (quick) / 10 (thorough); remaining slots literals",
            "paths_per_case": cases[0]["limits"]["max_paths"] if cases else 0,
            "seconds_per_case": cases[0]["limits"]["time"] if cases else 0,
            "outside": "float rounding, int64 overflow, complex coefficients, result dtype (C12)",
        },
        assumptions=__import__("nv.stubs", fromlist=["x"]).stub_list(),
        functions=[
            "numpoly.add",
            "numpoly.subtract",
            "numpoly.multiply",
            "numpoly.negative",
            "numpoly.positive",
            "numpoly.power",
            "numpoly.square",
            "numpoly.dispatch.simple_dispatch",
            "numpoly.align.*",
            "numpoly.construct.clean.*",
            "numpoly.construct.from_attributes",
            "ndpoly.__new__/coefficients/exponents/values",
        ],
    )


if __name__ == "__main__":
    sys.exit(main())
