"""C13 — pickle, copy and text save/load round trips (E1 + S5/S6/S9)."""
from __future__ import annotations

import copy
import io
import itertools
import os
import pickle
import random
import sys
import tempfile
from fractions import Fraction
from typing import Dict, List

import numpy

from .. import harness as H
from .. import model as M
from .. import structures as S
from ..common import check_invariants, snapshot_args, check_unmodified
from ..engine import ENGINE, Sym
from .c16 import _str_hook

PROP = "C13"
MOD = "nv.checks.c13"


# ----------------------------------------------------------------------------- S9
def _install_s9():
    """numpy.lib.recfunctions views are refused for arrays of references: field-by-field copies with the
    documented shape rules for object dtype; the real functions for every native dtype."""
    sv = sys.modules["numpoly.array_function.savetxt"]
    ld = sys.modules["numpoly.array_function.loadtxt"]
    if getattr(sv, "_nv_s9", False):
        return
    real_s2u = sv.structured_to_unstructured
    real_u2s = ld.unstructured_to_structured

    def s2u(arr, *a, **k):
        if arr.dtype.names and arr.dtype[0] == object:
            out = numpy.empty(arr.shape + (len(arr.dtype.names),), dtype=object)
            for i, nm in enumerate(arr.dtype.names):
                out[..., i] = arr[nm]
            return out
        return real_s2u(arr, *a, **k)

    def u2s(arr, dtype=None, *a, **k):
        if dtype is not None and numpy.dtype(dtype).names and numpy.dtype(dtype)[0] == object:
            dtype = numpy.dtype(dtype)
            if arr.shape == ():
                raise ValueError("arr must have at least one dimension")
            if arr.shape[-1] != len(dtype.names):
                raise ValueError("The length of the last dimension of arr must be equal to the number of fields in dtype")
            out = numpy.empty(arr.shape[:-1], dtype=dtype)
            for i, nm in enumerate(dtype.names):
                out[nm] = arr[..., i]
            return out
        return real_u2s(arr, dtype, *a, **k)

    sv.structured_to_unstructured = s2u
    ld.unstructured_to_structured = u2s
    sv._nv_s9 = True


def _converter(tokens):
    def conv(text):
        if isinstance(text, bytes):
            text = text.decode("latin1")
        text = text.strip()
        neg = text.startswith("-")
        body = text[1:] if neg else text
        if body.startswith("T"):
            v = tokens[int(body[1:])]
        else:
            v = Sym.const(Fraction(body) if "." not in body and "e" not in body.lower() else Fraction(float(body)))
        return -v if neg else v

    return conv


def _same_repr(ctx, q, p, what, exact_exponents=True):
    import numpoly

    if not isinstance(q, numpoly.ndpoly):
        ctx.fail("type", "%s returned %s" % (what, type(q).__name__))
        return
    ctx.expect_model(q, M.to_model(p), what)
    if tuple(q.shape) != tuple(p.shape):
        ctx.fail("shape", "%s: shape %s != %s" % (what, tuple(q.shape), tuple(p.shape)))
    if tuple(q.names) != tuple(p.names):
        ctx.fail("names", "%s: names %s != %s" % (what, tuple(q.names), tuple(p.names)))
    if q.dtype != p.dtype:
        ctx.fail("dtype", "%s: dtype %s != %s" % (what, q.dtype, p.dtype))
    if exact_exponents and sorted(map(tuple, q.exponents.tolist())) != sorted(map(tuple, p.exponents.tolist())):
        ctx.fail("exponents", "%s: exponents %s != %s" % (what, q.exponents.tolist(), p.exponents.tolist()))
    check_invariants(ctx, q, what)


def body(ctx: H.BaseCtx):
    import numpoly

    case = ctx.case
    if ctx.symbolic and case.get("native_only"):
        return  # (literal-only cases of a size the object carrier's text stubs are too slow for)
    spec = case["poly"]
    p = ctx.build(spec)
    snap = snapshot_args([p])
    kind = case["kind"]
    if kind == "pickle":
        for proto in range(0, pickle.HIGHEST_PROTOCOL + 1):
            try:
                q = pickle.loads(pickle.dumps(p, protocol=proto))
            except Exception as e:
                ctx.unexpected_exception(e, "pickle protocol %d" % proto)
                continue
            _same_repr(ctx, q, p, "pickle protocol %d" % proto)
    elif kind == "copy":
        for name, f in (("copy.copy", copy.copy), ("copy.deepcopy", copy.deepcopy), (".copy()", lambda x: x.copy())):
            try:
                q = f(p)
            except Exception as e:
                ctx.unexpected_exception(e, name)
                continue
            if q is p:
                ctx.fail("alias", "%s returned the same object" % name)
            _same_repr(ctx, q, p, name)
    elif kind == "plain":
        # a file without the numpoly header loads as a plain array
        old_hook = ENGINE.str_hook
        if ctx.symbolic:
            _install_s9()
            ENGINE.str_hook = _str_hook
        tmpdir = tempfile.mkdtemp(prefix="nv_c13_")
        try:
            arr = p  # built from an array spec: a numpy array
            path = os.path.join(tmpdir, "plain.txt")
            kw, lkw = {}, {}
            if ctx.symbolic:
                kw["fmt"] = "%s"
                lkw = {"dtype": object, "converters": _converter(ENGINE.path_cache.setdefault("tokens", [])), "encoding": None}
            try:
                numpy.savetxt(path, arr, header=case.get("header", ""), **kw)
                r = numpoly.loadtxt(path, **lkw)
            except Exception as e:
                ctx.unexpected_exception(e, "plain savetxt/loadtxt")
                return
            if isinstance(r, numpoly.ndpoly) or not isinstance(r, numpy.ndarray):
                ctx.fail("type", "a file without the numpoly header loaded as %s" % type(r).__name__)
            else:
                want = numpy.asarray(arr)
                if want.ndim == 2 and 1 in want.shape or want.ndim == 1 and want.shape[0] == 1:
                    want = want.squeeze()  # numpy.loadtxt squeezes singleton axes
                ctx.expect_model(r, M.from_numeric(numpy.asarray(want, dtype=object)), "plain text round trip", rtol=None if ctx.symbolic else 1e-12)
        finally:
            ENGINE.str_hook = old_hook
            for f in os.listdir(tmpdir):
                os.unlink(os.path.join(tmpdir, f))
            os.rmdir(tmpdir)
        return
    elif kind == "text":
        old_hook = ENGINE.str_hook
        if ctx.symbolic:
            _install_s9()
            ENGINE.str_hook = _str_hook
        tmpdir = tempfile.mkdtemp(prefix="nv_c13_")
        try:
            kw = dict(case.get("save_kwargs", {}))
            lkw = {}
            if "comments" in kw:
                lkw["comments"] = kw["comments"]
            if "delimiter" in kw:
                lkw["delimiter"] = kw["delimiter"]
            if ctx.symbolic:
                kw["fmt"] = "%s"
                lkw["dtype"] = object
                lkw["converters"] = _converter(ENGINE.path_cache.setdefault("tokens", []))
                lkw["encoding"] = None
            elif "fmt" in case:
                kw["fmt"] = case["fmt"]
                if case.get("load_dtype"):
                    lkw["dtype"] = case["load_dtype"]
            saver = numpy.savetxt if case.get("saver") == "numpy" else numpoly.savetxt
            try:
                if case.get("fileobj"):
                    buf = io.StringIO()
                    saver(buf, p, **kw)
                    buf.seek(0)
                    q = numpoly.loadtxt(buf, **lkw)
                else:
                    path = os.path.join(tmpdir, "poly.txt")
                    saver(path, p, **kw)
                    if not ctx.symbolic:
                        # a partial read with less common arguments first (a preview): whatever it returns or raises, it must
                        # leave nothing behind that changes the ordinary read that follows
                        for extra in ({"max_rows": 1}, {"skiprows": 1, "ndmin": 1}, {"usecols": (0,)}):
                            try:
                                numpoly.loadtxt(path, **dict(lkw, **extra))
                            except Exception:
                                pass
                    q = numpoly.loadtxt(path, **lkw)
            except Exception as e:
                ctx.unexpected_exception(e, "savetxt/loadtxt")
                check_unmodified(ctx, [p], snap)
                return
            if not isinstance(q, numpoly.ndpoly):
                ctx.fail("type", "loadtxt returned %s" % type(q).__name__)
            else:
                # default '%.18e' text is exact to float precision; an integer format must round-trip integers exactly
                ctx.expect_model(q, M.to_model(p), "text round trip", rtol=None if ctx.symbolic else (0 if case.get("fmt") == "%d" else 1e-12))
                if tuple(q.names) != tuple(p.names):
                    ctx.fail("names", "text round trip: names %s != %s" % (tuple(q.names), tuple(p.names)))
                check_invariants(ctx, q, "loaded polynomial")
        finally:
            ENGINE.str_hook = old_hook
            for f in os.listdir(tmpdir):
                os.unlink(os.path.join(tmpdir, f))
            os.rmdir(tmpdir)
    check_unmodified(ctx, [p], snap)


def body_for(case):
    return body


def run_case(case: Dict) -> Dict:
    return H.simple_run_case(case, body, [case["poly"]])


def gen_cases(tier: str, seed: int) -> List[Dict]:
    rng = random.Random(13000 + seed)
    quick = tier == "quick"
    lim = H.limits(tier)
    cases: List[Dict] = []
    n = 0

    def add(kind, spec, **kw):
        nonlocal n
        n += 1
        c = {"id": "%s-%03d-%s" % (PROP, n, kind), "op": kind, "kind": kind, "poly": spec, "limits": lim}
        c.update(kw)
        cases.append(c)

    namesets = [("q0",), ("q0", "q1"), ("q2", "q10"), ("q0", "q1", "q2", "q10")]
    shapes = [(), (1,), (3,), (2, 2), (1, 2), (2, 1, 2)]

    def P(shape, names=None, nterms=None, mode=None, atoms=None, zero=0.15):
        nm = names or rng.choice(namesets)
        nt = nterms or rng.choice([1, 2, 3])
        exps = S.exps_for(len(nm), 2, rng, nt, include_const=rng.random() < 0.5)
        return S.make_poly_spec("a", nm, exps, shape, rng, atoms if atoms is not None else (4 if quick else 6), zero_prob=zero, literal_prob=0.2, mode=mode or rng.choice(["raw", "clean"]))

    # strided views (poly.T, poly[::-1], swapaxes): not C-contiguous
    # (+ axes rotated by one in 3-d, reversed axes in 4-d: layouts whose axis permutation is not its own inverse)
    for shape, view in [((2, 3), "T"), ((3,), "rev"), ((2, 2), "rev"), ((2, 1, 3), "swap"), ((1, 3), "T"), ((2, 3, 2), "cyc"), ((3, 2, 2), "cyc"), ((2, 1, 3, 2), "T"), ((2, 2, 3, 2), "T"), ((2, 3, 2, 2), "cyc"),
                        ((2, 3), "T+own"), ((2, 1, 3), "swap+own"), ((2, 3, 2), "cyc+own"), ((3, 2, 2), "cyc+own")]:
        for kind in ("pickle", "copy"):
            sp = P(shape, nterms=2, mode="raw")
            sp["view"] = view
            add(kind, sp)
        sp = P(shape, nterms=2, mode="raw", atoms=3)
        sp["view"] = view
        add("text", sp, save_kwargs={}, saver=rng.choice(["numpoly", "numpy"]), fileobj=False)
    # many stored terms and declared names: a header line of tens of thousands of characters, read from a path and from a file object
    for fo in (False, True):
        nterms = 1800 if quick else 14000  # header lines past 8192 (quick) / 65536 (thorough) characters
        rows = [[e % 50, e // 50, 0, 0] for e in range(nterms)]
        slots = [[(1 if e % 997 == 0 else 0), (e % 5 - 2 if e % 611 == 0 else 0)] for e in range(nterms)]
        slots[0] = [3, -1]
        sp = {"kind": "poly", "names": ["q0", "q1", "q2", "q10"], "exps": rows, "shape": [2], "slots": slots, "mode": "raw"}
        add("text", sp, save_kwargs={}, saver="numpoly", fileobj=fo, native_only=True)
    # arrays without elements keep shape, type and names through pickle / copy
    for shape in [(0,), (2, 0), (0, 3)]:
        for kind in ("pickle", "copy"):
            sp = P(shape, nterms=2, mode="raw")
            sp.pop("pre", None)
            add(kind, sp)
    reps = 6 if quick else 80
    for _ in range(reps):
        for shape in shapes:
            add("pickle", P(shape))
            add("copy", P(shape))
            # a polynomial carrying a retained all-zero column (what align_* returns)
            sp = P(shape, nterms=2, mode="raw")
            sp["slots"][0] = [0 for _ in sp["slots"][0]]
            add("pickle", sp)
            add("copy", sp)
            for opt in ({"retain_names": False}, {"retain_coefficients": True}):
                add("pickle", P(shape, names=("q0", "q1"), mode="raw"), options=opt)
    # text: every shape incl. 0-d / size-1 / n-d, single-term polynomials, settings, file objects
    settings = [{}, {"delimiter": ","}, {"header": "my header"}, {"comments": "% "}, {"delimiter": ";", "comments": "// "},
                {"comments": "$ "}, {"comments": "| "}, {"comments": "* "}, {"comments": "^"}, {"comments": "(? "}, {"comments": ". "}, {"comments": "[#] "}]
    for shape in shapes:
        for nt in (1, 2, 3):
            if quick and nt == 3 and rng.random() < 0.5:
                continue
            add("text", P(shape, nterms=nt, atoms=3), save_kwargs=rng.choice(settings), saver=rng.choice(["numpoly", "numpy"]), fileobj=rng.random() < 0.3)
    add("text", P((2,), names=("q0", "q1", "q2", "q10"), nterms=3), save_kwargs={}, saver="numpoly", fileobj=False)
    add("text", P((3,), nterms=2), save_kwargs={}, saver="numpoly", fileobj=True)
    # exponents whose key character is white space of some kind (74 = U+0085, 101 = U+00A0, 5701 = U+1680, 8173/4 = U+2028/9,
    # 12229 = U+3000), a backslash (33) or a brace (64, 66): the header is one line of such characters
    for e in (74, 101, 33, 64, 66, 5701, 8133, 8173, 8174, 8180, 12229):
        sp = S.make_poly_spec("a", ("q0", "q1"), [[e, 0], [0, 1], [1, e]], (2,), rng, 2, zero_prob=0.0, literal_prob=0.3, mode="raw")
        sp.pop("pre", None)
        add("text", sp, save_kwargs={}, saver=rng.choice(["numpoly", "numpy"]), fileobj=e % 2 == 0)
    # exact integer format: coefficients beyond 2**53 must come back exactly (native runs; literals, no atoms)
    big = {"kind": "poly", "names": ["q0", "q1"], "exps": [[0, 0], [1, 1]], "shape": [2], "slots": [[9007199254740993, 3], [-(2 ** 62 + 5), 1]], "mode": "raw"}
    add("text", big, save_kwargs={}, saver="numpoly", fileobj=False, fmt="%d", load_dtype="int")
    add("text", big, save_kwargs={"delimiter": ","}, saver="numpy", fileobj=True, fmt="%d", load_dtype="int")
    for shape in [(3,), (2, 2), (1, 3)]:
        add("plain", S.make_numeric_spec("x", "array", shape, rng, 3), header=rng.choice(["", "some other header", "numpoly is mentioned but this is no numpoly header"]))
    return cases


def main(argv=None) -> int:
    return H.simple_main(
        PROP, MOD, gen_cases,
        rule="one case = (round-trip kind, polynomial structure, option / save settings); non-trivial = >= 2 feasible paths",
        bounds={"pickle_protocols": "0..5", "shapes": "0-d, size-1, 1-d..3-d", "terms": "1..3 (single-term polynomials included)", "names": "1-4 incl. q10",
                "text_settings": "delimiter / header / comments variants, numpy.savetxt and numpoly.savetxt, paths and file objects",
                "outside": "precision and number formatting of the text format (values travel as tokens symbolically; native replays use the default '%.18e'); files without the numpoly header"},
        functions=["ndpoly.__reduce__", "numpoly.polynomial_from_attributes", "ndarray.__copy__/__deepcopy__/copy on ndpoly", "numpoly.savetxt", "numpoly.loadtxt", "numpoly.reshape", "numpoly.polynomial (structured import)"],
        assumptions=["S5 token formatter for str(Sym)", "S6 pickling/deepcopy of a Sym preserves its value", "S9 structured<->unstructured conversion by field copies for object dtype"],
        argv=argv,
    )


if __name__ == "__main__":
    sys.exit(main())
