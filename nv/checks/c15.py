"""C15 — option settings never change the mathematical result (E1).

The operation catalogue of the other E1 drivers is re-run under non-default option configurations; every body
compares with the *same* exact model, so "equal to the result under defaults" is transitive through the model.
Differences the options are allowed to make (unused names / all-zero terms kept or dropped) are not verdicts here."""
from __future__ import annotations

import importlib

import numpy
import itertools
import random
import sys
from typing import Dict, List

from .. import harness as H

PROP = "C15"
MOD = "nv.checks.c15"
BOOLS = ["retain_names", "retain_coefficients", "sort_graded", "sort_reverse", "display_graded", "display_reverse", "display_inverse", "force_number_suffix"]
# drivers whose operations the property lists: construct, combine, differentiate, evaluate, index, align, (un)pickle (+ division under default retain options)
SOURCES = {"c01": None, "c02": None, "c03": None, "c04": None, "c06": None, "c09": None, "c10": None, "c13": None, "c19": None, "c05": "no-retain", "c07": "no-sort", "c16": "display-only"}
ALLOWED_DIFFERENCES = {"names", "exponents", "terms"}


def covering_array(rng: random.Random, k: int = 8) -> List[List[bool]]:
    """Greedy strength-2 covering array over k booleans (every pair of options sees all 4 value combinations)."""
    need = {(i, j, a, b) for i in range(k) for j in range(i + 1, k) for a in (0, 1) for b in (0, 1)}
    rows: List[List[bool]] = []
    while need:
        best, gain = None, -1
        for _ in range(60):
            r = [rng.random() < 0.5 for _ in range(k)]
            g = sum(1 for (i, j, a, b) in need if r[i] == bool(a) and r[j] == bool(b))
            if g > gain:
                best, gain = r, g
        rows.append(best)
        need = {(i, j, a, b) for (i, j, a, b) in need if not (best[i] == bool(a) and best[j] == bool(b))}
    return rows


def _raw_inputs(x):
    if isinstance(x, dict):
        y = {k: _raw_inputs(v) for k, v in x.items()}
        if y.get("mode") == "clean" and "slots" in y:
            y["mode"] = "raw"
        return y
    if isinstance(x, list):
        return [_raw_inputs(v) for v in x]
    return x


def body_meta(ctx: H.BaseCtx):
    """Native only: shape, dtype and value of a fixed set of operations on operands the exact carrier has no notion of (narrow
    dtypes, arrays without elements) must be the same under the case's option configuration as under the defaults."""
    import numpoly
    from .. import model as M

    if ctx.symbolic:
        return
    q0, q1 = numpoly.variable(2)

    def zoo():
        out = {}
        for dt in ("float64", "float32", "int8", "uint16"):
            out["empty(0,3) " + dt] = numpoly.polynomial(numpy.zeros((0, 3), dtype=dt))
            out["empty(0,) " + dt] = numpoly.polynomial(numpy.zeros((0,), dtype=dt)) * 1
            out["vec " + dt] = numpoly.polynomial(numpy.array([1, 2, 3], dtype=dt))
        return out

    operations = [
        ("x + q1", lambda x: x + q1), ("x * q1", lambda x: x * q1), ("-x", lambda x: -x), ("x - q1", lambda x: x - q1), ("x * (q0 + 1)", lambda x: x * (q0 + 1)),
        ("sum(x, 0)", lambda x: numpoly.sum(x, 0)), ("concatenate([x, x])", lambda x: numpoly.concatenate([x, x])), ("x ** 2", lambda x: x ** 2),
        ("derivative(x*q0*q1, q0)", lambda x: numpoly.derivative(x * q0 * q1, "q0")), ("(x*q1)(q1=2)", lambda x: (x * q1)(q1=2)), ("x.astype(float)", lambda x: x.astype(float)),
        ("where(x == x, x, q0)", lambda x: numpoly.where(numpy.ones(x.shape, dtype=bool), x, q0)),
    ]
    current = numpoly.get_options()
    for oname, f in operations:
        for zname in zoo():
            try:
                with numpoly.global_options(**numpoly.get_options(defaults=True)):
                    ref = f(zoo()[zname])
            except Exception:
                continue  # what the defaults refuse is not this property's business
            try:
                got = f(zoo()[zname])
            except Exception as e:
                ctx.fail("exception", "%s on %s raises %s under %s but not under the defaults" % (oname, zname, type(e).__name__, {k: v for k, v in current.items() if k in BOOLS[:2]}))
                continue
            _shp = lambda v: tuple(getattr(v, "shape", ()))
            if _shp(got) != _shp(ref):
                ctx.fail("shape", "%s on %s: shape %s, under the defaults %s" % (oname, zname, _shp(got), _shp(ref)))
            elif getattr(got, "dtype", None) != getattr(ref, "dtype", None):
                ctx.fail("dtype", "%s on %s: dtype %s, under the defaults %s" % (oname, zname, getattr(got, "dtype", None), getattr(ref, "dtype", None)))
            else:
                try:
                    ctx.expect_model(got, M.to_model(ref), "%s on %s" % (oname, zname), rtol=0)
                except Exception:
                    pass


def body(ctx: H.BaseCtx):
    if ctx.case.get("op") == "native-meta":
        return body_meta(ctx)
    src = ctx.case["src"]
    mod = importlib.import_module("nv.checks." + src)
    mod.body_for(ctx.case)(ctx)
    rn = (ctx.case.get("options") or {}).get("retain_names", True)
    ctx.issues[:] = [
        i for i in ctx.issues
        if i.kind not in ALLOWED_DIFFERENCES
        # under retain_names=False an input that has to be rebuilt (e.g. broadcast) may drop a name it does not use: allowed
        and not (not rn and i.kind == "align" and i.detail.startswith("names"))
    ]


def body_for(case):
    return body


def run_case(case: Dict) -> Dict:
    from .c17 import run_case as _rc  # same spec collection

    specs = []
    specs += case.get("operands", []) or []
    for k in ("poly", "divisor", "dividend", "cofactor", "extra", "triple"):
        if case.get(k):
            v = dict(case[k])
            v.setdefault("kind", "poly")
            specs.append(v)
    specs += [a for a in case.get("args", []) or [] if a]
    specs += list((case.get("kwargs") or {}).values())
    return H.simple_run_case(case, body, specs)


def gen_cases(tier: str, seed: int) -> List[Dict]:
    rng = random.Random(15000 + seed)
    quick = tier == "quick"
    lim = H.limits(tier, quick=(600, 30.0), thorough=(4000, 120.0))
    if quick:
        configs = [dict(zip(BOOLS, row)) for row in covering_array(rng)]
    else:
        rows = list(itertools.product([True, False], repeat=8))
        rng.shuffle(rows)
        configs = [dict(zip(BOOLS, row)) for row in rows]  # all 256
    strings = [{}, {"display_exponent": "^"}, {"display_multiply": "·"}]
    cases: List[Dict] = []
    per = 5 if quick else 3
    pools = {}
    for src in SOURCES:
        mod = importlib.import_module("nv.checks." + src)
        cs = mod.gen_cases(tier, seed)
        if src == "c03":
            cs = [c for c in cs if c["op"] == "rebuild"]
        if src == "c13":
            cs = [c for c in cs if c["kind"] in ("pickle", "copy")]
        if src == "c10":
            # the recorded known finding C10-matmul-vector (1-d operands) is C10's business
            cs = [c for c in cs if not (c["fn"].startswith("matmul") and any(len(o["shape"]) == 1 for o in c["operands"]))]
        if src == "c09":
            # the recorded known finding C09-repeat-default-axis is C09's business
            cs = [c for c in cs if not (c["fn"] == "repeat" and (c.get("par") or {}).get("axis") == "omitted")]
        if src == "c19":
            cs = [c for c in cs if c["fn"] in ("lead", "const", "decompose", "set_dimensions")]
        pools[src] = cs
    for ci, cfg in enumerate(configs if quick else configs[::4]):
        cases.append({"id": "C15[%d]-native-meta" % ci, "op": "native-meta", "options": dict(cfg), "limits": lim})
    for ci, cfg in enumerate(configs):
        for src, restriction in SOURCES.items():
            pool = pools[src]
            always = [c for c in pool if "-unusedlead" in c.get("id", "")] if src == "c03" else []
            if src == "c06":
                mixed = [c for c in pool if c.get("id", "").endswith("-mixed") and not c.get("options")]
                always = rng.sample(mixed, min(4 if quick else 2, len(mixed)))
            if src == "c02":
                # arguments that only exist under some option settings (q1 - q1 with its zero term retained) given to evaluation
                dis = [c for c in pool if "disguised-number" in c.get("id", "")]
                always = rng.sample(dis, min(2 if quick else 1, len(dis)))
            if src == "c07":
                # ordering functions must follow sort_*, never display_*: always one case whose sort flags are the opposite of this
                # configuration's display flags, on monomials that graded and ungraded orders rank differently
                opp = [c for c in pool if "-mixeddeg" in c.get("id", "") and (c.get("options") or {}).get("sort_graded") != cfg["display_graded"]
                       and (c.get("options") or {}).get("sort_reverse") != cfg["display_reverse"]]
                lits = [c for c in opp if c["id"].endswith("-lit")]
                always = rng.sample(lits, min(1, len(lits))) + rng.sample(opp, min(1, len(opp)))
            for c in always + rng.sample(pool, min(per, len(pool))):
                c = dict(c)
                opt = dict(cfg)
                opt.update(rng.choice(strings))
                if restriction == "no-retain":  # division is checked under default retain options
                    opt.pop("retain_names")
                    opt.pop("retain_coefficients")
                if restriction == "no-sort":  # ordering-based functions: only the options that must not matter to them
                    opt.pop("sort_graded")
                    opt.pop("sort_reverse")
                if restriction == "display-only":
                    for k in ("display_graded", "display_reverse", "display_inverse", "display_exponent", "display_multiply"):
                        opt.pop(k, None)
                base = dict(c.get("options") or {})
                if restriction == "no-sort":
                    opt.update({k: v for k, v in base.items() if k in ("sort_graded", "sort_reverse")})
                elif restriction == "display-only":
                    opt.update(base)
                if "special" in (str(c.get("op")), str(c.get("fn")), str(c.get("mode"))) or str(c.get("op", "")).endswith(":special"):
                    # the native special-value oracles name terms by exponent position: the declared names have to stay as built
                    opt["retain_names"] = True
                if not opt.get("retain_names", True):
                    # a *cleaned* input would itself lose unused names under retain_names=False, and designations by
                    # name / index / keyword would then refer to indeterminates the input no longer has: build raw
                    c = _raw_inputs(c)
                c["options"] = opt
                c["src"] = src
                c["id"] = "C15[%d]<%s" % (ci, c["id"])
                c["limits"] = lim
                cases.append(c)
    return cases


def main(argv=None) -> int:
    return H.simple_main(
        PROP, MOD, gen_cases,
        rule="one case = (operation-catalogue entry of an E1 driver, option configuration); non-trivial = >= 2 feasible paths; verdict = the driver's comparison with the exact model "
        "(must hold in every configuration) and absence of exceptions",
        bounds={"configurations": "strength-2 covering array of the 8 boolean options (quick) / all 256 (thorough) x display_exponent/display_multiply variants",
                "catalogue": "5 (quick) / 3 (thorough) sampled cases per driver and configuration from C01 C02 C04 C06 C09 C10 C13(pickle/copy) C19(lead/const/decompose/set_dimensions), "
                "C05 under default retain options, C07 under the non-sort options, C16 under the non-display options",
                "allowed": "differences in kept names / all-zero terms (the documented effect of the retain options) are not verdicts",
                "outside": "default_varname / varname_filter settings"},
        functions=["numpoly.option.*", "construct.clean.postprocess_attributes", "align.*", "every function exercised by the listed drivers"],
        argv=argv,
    )


if __name__ == "__main__":
    sys.exit(main())
