"""C17 — operations never modify their arguments (E1).

Every E1 driver snapshots its arguments (shape, names, keys, dtype and the *identity* of every stored element,
so even a store of an equal value is seen) and compares after the call, on every path, whether it returned or
raised.  This check (a) re-runs the operation catalogue of the other drivers keeping only the `mutated`
verdicts, and (b) adds the situations where aliasing is most likely: already aligned operands, calls that raise,
explicit output targets (exempt themselves, but the other arguments are not), and the string functions with
small-number suppression."""
from __future__ import annotations

import importlib
import random
import sys
from typing import Dict, List

import numpy

from .. import harness as H
from .. import model as M
from .. import structures as S
from ..common import snapshot_args, check_unmodified

PROP = "C17"
MOD = "nv.checks.c17"
SOURCES = ["c01", "c02", "c04", "c05", "c06", "c07", "c09", "c10", "c13", "c16", "c19"]


def own_body(ctx: H.BaseCtx):
    import numpoly

    case = ctx.case
    ops = [ctx.build(s) for s in case["operands"]]
    snap = snapshot_args(ops)
    fn = case["fn"]
    a = ops[0]
    b = ops[1] if len(ops) > 1 else None
    try:
        if fn == "binary-all":
            for f in ("add", "subtract", "multiply", "equal", "not_equal", "less", "greater", "less_equal", "greater_equal", "maximum", "minimum",
                      "logical_and", "logical_or", "inner", "outer", "where3"):
                try:
                    if f == "where3":
                        numpoly.where(numpy.ones(numpy.broadcast_shapes(a.shape, b.shape), dtype=bool), a, b)
                    elif f == "inner" and (not a.shape or not b.shape or a.shape[-1] != b.shape[-1]):
                        continue
                    else:
                        getattr(numpoly, f)(a, b)
                except Exception:
                    pass
                check_unmodified(ctx, ops, snap, what="argument of %s" % f)
            # where= masks (no out=): the operands must not be used as the output buffer
            bshape = numpy.broadcast_shapes(a.shape, b.shape)
            mask = (numpy.arange(S.size_of(bshape)).reshape(bshape) % 2 == 0) if bshape else numpy.array(True)
            for f in ("add", "subtract", "multiply", "equal", "not_equal"):
                try:
                    getattr(numpoly, f)(a, b, where=mask)
                except Exception:
                    pass
                check_unmodified(ctx, ops, snap, what="argument of %s(where=mask)" % f)
                try:
                    getattr(numpy, f)(a, b, where=mask)
                except Exception:
                    pass
                check_unmodified(ctx, ops, snap, what="argument of numpy.%s(where=mask)" % f)
            for opname, f in (("/", lambda: a / b), ("%", lambda: a % b), ("divmod", lambda: divmod(a, b)), ("**2", lambda: a ** 2), ("@", lambda: a @ b)):
                if opname in ("/", "%", "divmod") and case.get("nodiv"):
                    continue
                try:
                    f()
                except Exception:
                    pass
                check_unmodified(ctx, ops, snap, what="argument of %s" % opname)
        elif fn == "raising":
            # calls that raise: the arguments must be intact afterwards as well
            for name, f in (
                ("add (shape mismatch)", lambda: numpoly.add(a, b)),
                ("multiply (shape mismatch)", lambda: numpoly.multiply(a, b)),
                ("concatenate (bad axis)", lambda: numpoly.concatenate([a, b], axis=3)),
                ("tonumpy", lambda: numpoly.tonumpy(a)),
                ("true_divide by polynomial", lambda: numpoly.true_divide(a, b)),
                ("call with unknown name", lambda: a(q77=1)),
                ("reshape (bad size)", lambda: numpoly.reshape(a, (7, 3))),
                ("derivative (unknown variable)", lambda: numpoly.derivative(a, "q9")),
                ("matmul (scalar)", lambda: numpoly.matmul(a, 3)),
            ):
                try:
                    f()
                except Exception:
                    pass
                check_unmodified(ctx, ops, snap, what="argument of raising %s" % name)
        elif fn == "text":
            for name, f in (
                ("array_repr(suppress_small=True)", lambda: numpoly.array_repr(a, suppress_small=True)),
                ("array_str(suppress_small=True, precision=3)", lambda: numpoly.array_str(a, suppress_small=True, precision=3)),
                ("array_repr(precision=2)", lambda: numpoly.array_repr(a, precision=2)),
                ("str", lambda: str(a)),
                ("repr", lambda: repr(a)),
            ):
                try:
                    f()
                except Exception as e:
                    ctx.unexpected_exception(e, name)
                check_unmodified(ctx, ops, snap, what="argument of %s" % name)
            if not ctx.symbolic and H.NATIVE_RUN_INDEX == 0:
                # special values (nan, inf, -0.0, subnormal): output and cleaning code likes to "normalise" them -- not in the argument
                import io
                from .. import special as SP

                q0, q1 = numpoly.variable(2)
                for pair in SP.PAIRS:
                    for sp in (numpoly.polynomial([pair[0] * q0 + pair[1], -0.0 * q1 + pair[0]]), numpoly.polynomial([[pair[0], -0.0], [pair[1] * q0, 5e-324 * q1]])):
                        before = SP.bytes_of(sp)
                        for name, f in (
                            ("savetxt", lambda: numpoly.savetxt(io.StringIO(), sp)),
                            ("savetxt(fmt)", lambda: numpoly.savetxt(io.StringIO(), sp, fmt="%.3e", header="h")),
                            ("array_repr(suppress_small=True)", lambda: numpoly.array_repr(sp, suppress_small=True)),
                            ("str", lambda: str(sp)),
                            ("pickle", lambda: __import__("pickle").dumps(sp)),
                            ("clean_attributes", lambda: numpoly.clean_attributes(sp)),
                            ("isfinite", lambda: numpoly.isfinite(sp)),
                            ("absolute", lambda: numpoly.absolute(sp)),
                            ("sum", lambda: numpoly.sum(sp)),
                            ("p + 0", lambda: sp + 0),
                            ("p * 1", lambda: sp * 1),
                            ("to tonumpy of the constant part", lambda: numpoly.tonumpy(sp(0, 0) if callable(sp) else sp)),
                        ):
                            try:
                                with numpy.errstate(all="ignore"):
                                    f()
                            except Exception:
                                pass
                            if SP.bytes_of(sp) != before:
                                ctx.fail("mutated", "%s changed the bytes of its argument (coefficients incl. %s, -0.0, 5e-324)" % (name, pair))
                                before = SP.bytes_of(sp)
            if not ctx.symbolic and H.NATIVE_RUN_INDEX == 0:
                # arguments that are not polynomials at all -- index arrays, repeat counts, split points, bounds -- given as int64
                # ndarrays (the kind a conversion with asarray returns unchanged): byte-identical afterwards, whatever the call does
                q0 = numpoly.variable()
                for nchoices in (3, 70):
                    choices = numpoly.polynomial([k * q0 + 1 for k in range(nchoices)])
                    for mode in ("wrap", "clip", "raise"):
                        idx = numpy.array([0, nchoices + 5, -1, 2], dtype=numpy.int64)
                        before_i = idx.tobytes()
                        try:
                            numpoly.choose(idx, choices, mode=mode)
                        except Exception:
                            pass
                        if idx.tobytes() != before_i:
                            ctx.fail("mutated", "choose(mode=%s) with %d choices changed its index array to %s" % (mode, nchoices, idx.tolist()))
                vec = numpoly.polynomial([q0, 2 * q0, q0 ** 2, 3])
                for name, arr, call in (
                    ("repeat(repeats=array)", numpy.array([1, 0, 2, 1], dtype=numpy.int64), lambda x: numpoly.repeat(vec, x, axis=0)),
                    ("split(indices=array)", numpy.array([1, -1], dtype=numpy.int64), lambda x: numpoly.split(vec, x)),
                    ("array_split(indices=array)", numpy.array([3, 1], dtype=numpy.int64), lambda x: numpoly.array_split(vec, x)),
                    ("glexindex(start=array)", numpy.array([-1, 0], dtype=numpy.int64), lambda x: numpoly.glexindex(x, numpy.array([2, 3]), dimensions=2)),
                    ("monomial(start=array)", numpy.array([0, 1], dtype=numpy.int64), lambda x: numpoly.monomial(x, 3, dimensions=2)),
                    ("getitem(index array)", numpy.array([3, -1, 0], dtype=numpy.int64), lambda x: vec[x]),
                    ("tile(reps=array)", numpy.array([2, 1], dtype=numpy.int64), lambda x: numpoly.tile(vec, x)),
                    ("cross_truncate(indices)", numpy.array([[0.0, 3.0], [2.0, 2.0]]), lambda x: numpoly.cross_truncate(x, 3, 1)),
                    ("glexsort(keys)", numpy.array([[2, 0, 1], [1, 1, 0]], dtype=numpy.int64), lambda x: numpoly.glexsort(x, graded=True, reverse=True)),
                    ("loadtxt(usecols=array with negatives) of a polynomial file", numpy.array([0, -2, -1], dtype=numpy.int64), lambda x: _load_with(vec, usecols=x)),
                    ("loadtxt(usecols=0-d array) of a polynomial file", numpy.array(-1, dtype=numpy.int64), lambda x: _load_with(vec, usecols=x)),
                    ("loadtxt(usecols=array) of a plain file", numpy.array([-1, 0], dtype=numpy.int64), lambda x: numpoly.loadtxt(__import__("io").StringIO("1 2 3\n4 5 6\n"), usecols=x)),
                    ("loadtxt(skiprows=array)", numpy.array(0, dtype=numpy.int64), lambda x: _load_with(vec, skiprows=x)),
                    ("sum(axis=array)", numpy.array(-1, dtype=numpy.int64), lambda x: numpoly.sum(vec.reshape(2, 2), axis=int(x) if False else x)),
                    ("prod(axis=array)", numpy.array([-1], dtype=numpy.int64), lambda x: numpoly.prod(vec.reshape(2, 2), axis=tuple(x) if False else x)),
                    ("transpose(axes=array)", numpy.array([-1, 0], dtype=numpy.int64), lambda x: numpoly.transpose(vec.reshape(2, 2), x)),
                    ("moveaxis(array, array)", numpy.array([-1], dtype=numpy.int64), lambda x: numpoly.moveaxis(vec.reshape(2, 2), x, numpy.array([0]))),
                ):
                    before_a = arr.tobytes()
                    try:
                        call(arr)
                    except Exception:
                        pass
                    if arr.tobytes() != before_a:
                        ctx.fail("mutated", "%s changed that array to %s" % (name, arr.tolist()))
                # attribute tables handed to the constructors: exponent arrays of every integer type (incl. the uint32 table that
                # poly.exponents returns) and coefficient arrays, under both settings of the retain flags
                base = numpoly.polynomial([q0 ** 2 + 3, 2 * q0 * numpoly.variable(2)[1], 5])
                for edt in ("uint32", "int64", "int32", "uint8", "uint64", "int16"):
                    for rc in (True, False):
                        for label, call in (
                            ("ndpoly(exponents=)", lambda e, c: numpoly.ndpoly(exponents=e, shape=(3,), names=("q0", "q1"))),
                            ("polynomial_from_attributes", lambda e, c: numpoly.polynomial_from_attributes(e, c, ("q0", "q1"), retain_coefficients=rc, retain_names=rc)),
                            ("ndpoly.from_attributes", lambda e, c: numpoly.ndpoly.from_attributes(e, c, ("q0", "q1"), retain_coefficients=rc, retain_names=rc)),
                            ("clean_attributes(poly built on the table)", lambda e, c: numpoly.clean_attributes(numpoly.polynomial_from_attributes(e, c, ("q0", "q1"), retain_coefficients=True, retain_names=True))),
                            ("glexsort(table.T)", lambda e, c: numpoly.glexsort(e.T)),
                            ("monomial-style lookups: glexindex-free bindex", lambda e, c: numpoly.polynomial(dict(zip([tuple(r) for r in e.tolist()], c)), names=("q0", "q1"))),
                        ):
                            e = numpy.array(base.exponents, dtype=edt)
                            cs = [numpy.array(c, copy=True) for c in base.coefficients]
                            ctab = numpy.array(cs)
                            before_e, before_c = e.tobytes(), [c.tobytes() for c in cs]
                            for coefs in (cs, ctab):
                                try:
                                    with numpoly.global_options(retain_coefficients=rc, retain_names=rc):
                                        call(e, coefs)
                                except Exception:
                                    pass
                                if e.tobytes() != before_e:
                                    ctx.fail("mutated", "%s changed the %s exponent table it was given to %s (retain flags %s)" % (label, edt, e.tolist(), rc))
                                    e = numpy.array(base.exponents, dtype=edt)
                                if [c.tobytes() for c in cs] != before_c or ctab.tobytes() != b"".join(before_c):
                                    ctx.fail("mutated", "%s changed the coefficient arrays it was given (retain flags %s)" % (label, rc))
                                    cs = [numpy.array(c, copy=True) for c in base.coefficients]
                                    ctab = numpy.array(cs)
        elif fn == "out":
            # explicit targets are exempt; the *other* arguments are not
            import numpoly as npo

            target = npo.polynomial(npo.add(a, b))  # right layout for out=
            tsnap = snapshot_args([a, b])
            for name, f in (
                ("add(out=)", lambda: npo.add(a, b, out=target)),
                ("subtract(out=)", lambda: npo.subtract(a, b, out=target)),
                ("copyto", lambda: npo.copyto(target, a)),
            ):
                try:
                    f()
                except Exception:
                    pass
                check_unmodified(ctx, [a, b], tsnap, what="source argument of %s" % name)
        elif fn == "unary-all":
            mask = (numpy.arange(a.size).reshape(a.shape) % 2 == 0) if a.shape else numpy.array(True)
            for f in ("negative", "positive", "absolute", "square"):
                try:
                    getattr(numpoly, f)(a, where=mask)
                except Exception:
                    pass
                check_unmodified(ctx, ops, snap, what="argument of %s(where=mask)" % f)
            for f in ("negative", "positive", "absolute", "square", "sum", "cumsum", "prod", "mean", "any", "all", "count_nonzero", "nonzero", "isfinite",
                      "lead_exponent", "lead_coefficient", "sortable_proxy", "decompose", "gradient", "hessian", "isconstant", "ravel", "transpose", "diff",
                      "amax", "amin", "argmax", "argmin", "atleast_2d", "ones_like", "zeros_like", "polynomial", "aspolynomial", "clean_attributes"):
                try:
                    getattr(numpoly, f)(a)
                except Exception:
                    pass
                check_unmodified(ctx, ops, snap, what="argument of %s" % f)
    except Exception as e:
        ctx.fail("harness-exception", "%s: %s" % (type(e).__name__, e))
    check_unmodified(ctx, ops, snap)


def _load_with(poly, **kw):
    import io
    import numpoly

    f = io.StringIO()
    numpoly.savetxt(f, poly)
    f.seek(0)
    return numpoly.loadtxt(f, **kw)


def body(ctx: H.BaseCtx):
    src = ctx.case.get("src")
    if src:
        mod = importlib.import_module("nv.checks." + src)
        mod.body_for(ctx.case)(ctx)
    else:
        own_body(ctx)
    ctx.issues[:] = [i for i in ctx.issues if i.kind == "mutated"]


def body_for(case):
    return body


def run_case(case: Dict) -> Dict:
    src = case.get("src")
    if src:
        mod = importlib.import_module("nv.checks." + src)
        # reuse the source module's atom collection by calling its run_case machinery with our filtering body
        specs = []
        for k in ("operands",):
            specs += case.get(k, []) or []
        for k in ("poly", "divisor", "dividend", "cofactor", "extra", "triple"):
            if case.get(k):
                v = dict(case[k])
                v.setdefault("kind", "poly")
                specs.append(v)
        specs += [a for a in case.get("args", []) or [] if a]
        specs += list((case.get("kwargs") or {}).values())
        return H.simple_run_case(case, body, specs)
    return H.simple_run_case(case, body, case["operands"])


def gen_cases(tier: str, seed: int) -> List[Dict]:
    rng = random.Random(17000 + seed)
    quick = tier == "quick"
    lim = H.limits(tier, quick=(600, 30.0), thorough=(4000, 120.0))
    cases: List[Dict] = []
    # (a) the catalogue of the other drivers (sampled in the quick tier)
    for src in SOURCES:
        mod = importlib.import_module("nv.checks." + src)
        cs = mod.gen_cases(tier, seed)
        rng.shuffle(cs)
        take = cs[: (14 if quick else 80)]
        for c in take:
            c = dict(c)
            c["src"] = src
            c["id"] = "C17<" + c["id"]
            c["limits"] = lim
            cases.append(c)
    # (b) own cases
    n = 0

    def add(fn, operands, **kw):
        nonlocal n
        n += 1
        c = {"id": "%s-%03d-%s" % (PROP, n, fn), "op": fn, "fn": fn, "operands": operands, "limits": lim}
        c.update(kw)
        cases.append(c)

    names = ("q0", "q1")
    exps = [[0, 0], [1, 0], [0, 2]]
    for shape in [(), (2,), (2, 2)]:
        # already aligned: same names, same exponent rows, same shape -> aspolynomial/align_shape hand back the very same objects
        a = S.make_poly_spec("a", names, exps, shape, rng, 3, zero_prob=0.2, literal_prob=0.2, mode="raw")
        b = S.make_poly_spec("b", names, exps, shape, rng, 3, zero_prob=0.2, literal_prob=0.2, mode="raw")
        add("binary-all", [a, b], nodiv=shape == (2, 2))
        add("unary-all", [a])
        add("out", [a, b])
        add("text", [S.make_poly_spec("a", names, exps, shape, rng, 3, zero_prob=0.1, literal_prob=0.2, mode="raw")])
    # not aligned / numeric partner
    add("binary-all", [S.make_poly_spec("a", ("q0",), [[0], [1]], (2,), rng, 2, mode="clean"), S.make_numeric_spec("b", "array", (2,), rng, 2)], nodiv=False)
    add("binary-all", [S.make_poly_spec("a", ("q0", "q2"), [[1, 0], [0, 1]], (2, 1), rng, 2, mode="raw"), S.make_poly_spec("b", ("q1",), [[0], [2]], (1, 2), rng, 2, mode="raw")], nodiv=True)
    v = S.make_poly_spec("a", names, exps, (2, 3), rng, 4, mode="raw")
    v["view"] = "T"
    add("unary-all", [v])
    # operands with many stored terms (9 x 8 and 70 x 2 term pairs), some all-zero, names already common: whatever is handed through
    # unchanged by alignment is still the caller's object
    def wide(prefix, nterms, zero_at, shape=()):
        rows = [[e] for e in range(nterms)]
        n_ = S.size_of(shape)
        slots = [[(0 if e in zero_at else ((e * 5 + i) % 7) + 1) for i in range(n_)] for e in range(nterms)]
        return {"kind": "poly", "names": ["q0"], "exps": rows, "shape": list(shape), "slots": slots, "mode": "raw"}

    add("binary-all", [wide("a", 9, {3, 6}), wide("b", 8, set())], nodiv=True)
    add("binary-all", [wide("a", 70, {1, 40}, (2,)), wide("b", 2, {1}, (2,))], nodiv=True)
    add("unary-all", [wide("a", 70, {5, 69}, (2,))])
    # native dtype layer: coefficient types the constructors may want to convert (foreign byte order, narrow, unsigned): a conversion
    # done in place on the caller's array shows as a byte difference in the snapshot
    for dt in [">f8", ">i8", ">u4", "float32", "int16", "uint64", ">c16", "float16"]:
        a = S.extreme_poly_spec(names, exps, (2,), dt, rng, zero_prob=0.1)
        b = {"kind": "array", "shape": [2], "slots": [rng.choice(S.dtype_extremes(dt)[-3:]) for _ in range(2)], "dtype": a["dtype"]}
        add("binary-all", [a, b], nodiv=True, tag_dtype=dt)
        add("binary-all", [b, a], nodiv=True, tag_dtype=dt)
        add("unary-all", [S.extreme_poly_spec(names, exps, (2, 2), dt, rng, zero_prob=0.1)], tag_dtype=dt)
    # raising calls
    add("raising", [S.make_poly_spec("a", names, exps, (2,), rng, 3, mode="raw"), S.make_poly_spec("b", names, exps, (3,), rng, 3, mode="raw")])
    add("raising", [S.make_poly_spec("a", ("q0",), [[0], [1]], (2, 2), rng, 3, mode="raw"), S.make_poly_spec("b", ("q1",), [[1]], (3,), rng, 2, mode="raw")])
    return cases


def main(argv=None) -> int:
    return H.simple_main(
        PROP, MOD, gen_cases,
        rule="one case = one operation-catalogue entry (from every E1 driver) or an aliasing-prone call group; non-trivial = >= 2 feasible paths; verdict = identity snapshot of every argument",
        bounds={"catalogue": "sample (quick) / 80 per driver (thorough) of the C01 C02 C04 C05 C06 C07 C09 C10 C13 C16 C19 case families + aligned / raising / out= / text groups",
                "snapshot": "shape, names, keys, dtype, identity of every stored element (object carrier); byte comparison in native replays",
                "outside": "explicit output targets themselves (out=, copyto destination), in-place operators"},
        functions=["every function exercised by the E1 drivers", "numpoly.copyto", "out= paths of add/subtract", "array_repr/array_str with suppress_small/precision"],
        argv=argv,
    )


if __name__ == "__main__":
    sys.exit(main())
