"""C06 — derivative, gradient, Hessian are the formal partial derivatives, under every option setting (E1)."""
from __future__ import annotations

import itertools
import random
import sys
from typing import Dict, List

import numpy

from .. import harness as H
from .. import model as M
from .. import structures as S
from ..common import check_invariants, snapshot_args, check_unmodified

PROP = "C06"
MOD = "nv.checks.c06"
OPTS = ["retain_names", "retain_coefficients", "sort_graded", "sort_reverse"]


def _designate(d, names, p=None):
    import numpoly

    if isinstance(d, dict) and "own" in d:
        return p.indeterminants[list(p.names).index(d["own"])]  # the polynomial's own indeterminant (carries all of its names)
    if isinstance(d, dict):
        return numpoly.symbols(d["indet"])
    return d


def _name_of(d, names):
    if isinstance(d, dict) and "own" in d:
        return d["own"]
    if isinstance(d, dict):
        return d["indet"]
    if isinstance(d, int):
        return names[d]
    return d


def _fill(dst, prefix, src):
    if src.shape:
        for idx in numpy.ndindex(*src.shape):
            dst[prefix + idx] = src[idx]
    else:
        dst[prefix] = src.item()


def body_special(ctx: H.BaseCtx):
    """Native only: coefficients nan / +-inf / -0.0 / huge.  The formal derivative multiplies the coefficient of each term that
    contains the variable by its exponent and *drops* every other term (it does not multiply it by zero)."""
    import numpoly
    from .. import special as SP

    if ctx.symbolic:
        return
    case = ctx.case
    names = ("q0", "q1")
    exps = [[0, 0], [1, 0], [0, 2], [2, 1]]
    cols = [numpy.array(SP.PAIRS[(case["k"] + i) % len(SP.PAIRS)], dtype=float) for i in range(len(exps))]
    if case.get("only_other"):  # no term contains q0 at all
        exps, cols = [[0, 0], [0, 2], [0, 1]], cols[:3]
    p = numpoly.ndpoly(exponents=exps, shape=(2,), names=names, dtype=float)
    for key, col in zip(p.keys, cols):
        p.values[key] = col
    before = SP.bytes_of(p)
    with numpy.errstate(all="ignore"):
        for var, idx in (("q0", 0), ("q1", 1)):
            want = {}
            for e, c in zip(exps, cols):
                if e[idx] > 0:
                    ne = list(e)
                    ne[idx] -= 1
                    want[tuple(ne)] = e[idx] * c
            for desig in (var, idx, numpoly.symbols(var)):
                try:
                    r = numpoly.derivative(p, desig)
                except Exception as ex:
                    ctx.unexpected_exception(ex, "derivative (special values)")
                    continue
                SP.expect_terms(ctx, r, want, "derivative w.r.t. %s of a polynomial with coefficients %s" % (var, [c.tolist() for c in cols]))
            try:
                g = numpoly.gradient(p)
                SP.expect_terms(ctx, g[idx], want, "gradient[%d] (special values)" % idx)
            except Exception as ex:
                ctx.unexpected_exception(ex, "gradient (special values)")
    if SP.bytes_of(p) != before:
        ctx.fail("mutated", "derivative changed its argument (special values)")
    if case["k"] == 0 and not case.get("only_other"):
        # complex content (ordinary, tiny / purely imaginary, signed zeros, non-finite parts): each kept term is numpy's product of
        # the exponent (uint32) with the coefficient array, each other term is gone
        with numpy.errstate(all="ignore"):
            for label, zp in SP.zoo((2,)):
                zexps = [tuple(int(v) for v in e) for e in zp.exponents.tolist()]
                for var, idx in (("q0", 0), ("q1", 1)):
                    want = {}
                    for e, c in SP.terms(zp).items():
                        if e[idx] > 0:
                            ne = list(e)
                            ne[idx] -= 1
                            want[tuple(ne)] = (numpy.uint32(e[idx]) * c.T).T
                    try:
                        r = numpoly.derivative(SP.zoo((2,), only=label)[0][1], var)
                    except Exception as ex:
                        ctx.unexpected_exception(ex, "derivative (%s)" % label)
                        continue
                    SP.expect_terms(ctx, r, want, "derivative w.r.t. %s of a polynomial with %s coefficients" % (var, label))


def body(ctx: H.BaseCtx):
    import numpoly

    case = ctx.case
    if case.get("fn") == "special":
        return body_special(ctx)
    pspec = case["poly"]
    p = ctx.build(pspec)
    mp = ctx.model(pspec)
    names = list(pspec["names"])
    snap = snapshot_args([p])
    fn = case["fn"]
    try:
        if fn == "derivative":
            r = numpoly.derivative(p, *[_designate(d, names, p) for d in case["diffvars"]])
        elif fn == "gradient":
            r = numpoly.gradient(p)
        else:
            r = numpoly.hessian(p)
    except Exception as e:
        ctx.unexpected_exception(e, fn)
        check_unmodified(ctx, [p], snap)
        return
    if fn == "derivative":
        exp = mp
        for d in case["diffvars"]:
            nm = _name_of(d, names)
            exp = M.amap(lambda x, nm=nm: x.derivative(nm), exp)
    elif fn == "gradient":
        exp = numpy.empty((len(names),) + tuple(mp.shape), dtype=object)
        for i, nm in enumerate(names):
            _fill(exp, (i,), M.amap(lambda x, nm=nm: x.derivative(nm), mp))
    else:
        exp = numpy.empty((len(names), len(names)) + tuple(mp.shape), dtype=object)
        for i, n1 in enumerate(names):
            for j, n2 in enumerate(names):
                _fill(exp, (i, j), M.amap(lambda x, n1=n1, n2=n2: x.derivative(n1).derivative(n2), mp))
    if not isinstance(r, numpoly.ndpoly):
        ctx.fail("type", "%s returned %s" % (fn, type(r).__name__))
    ctx.expect_model(r, exp, fn)
    check_invariants(ctx, r, fn)
    check_unmodified(ctx, [p], snap)


def body_for(case):
    return body


def run_case(case: Dict) -> Dict:
    return H.simple_run_case(case, body, [case["poly"]])


def gen_cases(tier: str, seed: int) -> List[Dict]:
    rng = random.Random(6000 + seed)
    quick = tier == "quick"
    lim = H.limits(tier)
    settings = [dict(zip(OPTS, bits)) for bits in itertools.product([True, False], repeat=4)]
    cases: List[Dict] = []
    n = 0
    reps = 12 if quick else 1500
    name_sets = [("q0",), ("q0", "q1"), ("q1", "q2"), ("q0", "q1", "q2"), ("q2", "q10"), ("q1", "q0"), ("q10", "q2"), ("q2", "q0", "q1")]  # (incl. names stored out of index order)
    shapes = [(), (2,), (1, 2), (2, 2)] if quick else [(), (1,), (2,), (3,), (1, 2), (2, 1), (2, 2), (2, 1, 2)]
    k = 0
    for _ in range(reps):
        for opt in settings:
            k += 1
            names = rng.choice(name_sets)
            shape = rng.choice(shapes)
            nterms = rng.choice([1, 2, 3, 4] if not quick else [1, 2, 3])
            exps = S.exps_for(len(names), 3, rng, nterms, include_const=rng.random() < 0.5)
            # under retain_names=False a *cleaned* input may itself lose names, which would make index / name
            # designations refer to indeterminates the polynomial no longer has: build those inputs raw
            mode = rng.choice(["raw", "raw", "clean"]) if opt["retain_names"] else "raw"
            p = S.make_poly_spec("a", names, exps, shape, rng, 5 if quick else 8, mode=mode)
            kind = ["derivative", "derivative", "derivative", "gradient", "hessian"][k % 5]
            if kind == "hessian" and S.size_of(shape) * len(names) ** 2 > 18:
                kind = "gradient"
            c = {"poly": p, "fn": kind, "options": opt, "limits": lim}
            if kind == "derivative":
                nd = rng.choice([1, 1, 2, 2, 3])
                dv = []
                for _j in range(nd):
                    i = rng.randrange(len(names))
                    dv.append(rng.choice([names[i], i, {"indet": names[i]}, i - len(names), {"own": names[i]}]))  # (negative positions count from the end)
                c["diffvars"] = dv
            n += 1
            c["id"] = "%s-%03d-%s" % (PROP, n, kind)
            c["op"] = kind
            cases.append(c)
    # narrow native coefficient dtypes with coefficients whose derivative leaves the dtype's range (native runs)
    for dt, big in (("int8", 100), ("int16", 30000), ("uint8", 200), ("int32", 2 ** 30)):
        for names, exps in [(("q0", "q1"), [[1, 0], [3, 1], [0, 2]]), (("q0",), [[1], [2], [3]])]:
            p = S.make_poly_spec("a", names, exps, rng.choice([(), (2,)]), rng, 2, mode="raw", zero_prob=0.0, literal_prob=0.0)
            p["slots"] = [[(big if (i + j) % 2 else s) for j, s in enumerate(col)] for i, col in enumerate(p["slots"])]
            p["dtype"] = dt
            if dt.startswith("u"):
                p["unsigned"] = True
            for fnk, dv in (("derivative", [0]), ("derivative", [names[-1]]), ("gradient", None), ("hessian", None)):
                n += 1
                c = {"id": "%s-%03d-%s-%s" % (PROP, n, fnk, dt), "op": fnk, "fn": fnk, "poly": p, "options": {}, "limits": lim}
                if dv is not None:
                    c["diffvars"] = dv
                cases.append(c)
    # native special values (nan, inf, -0.0, huge): see body_special
    dummy = {"kind": "poly", "names": ["q0"], "exps": [[0]], "shape": [], "slots": [[1]], "mode": "raw"}
    for k in range(8):
        for oo in (False, True):
            n += 1
            cases.append({"id": "%s-%03d-special" % (PROP, n), "op": "special", "fn": "special", "poly": dummy, "k": k, "only_other": oo, "options": {}, "limits": lim})
    # mixed partials in both orders on the same structure (symmetry), default and retain_names=False
    # (second structure: the first round eliminates q0 / q1 altogether, so later positions must still mean the original names)
    for opt in ({}, {"retain_names": False}, {"retain_coefficients": True}, {"retain_names": False, "retain_coefficients": True}):
        for rows, dvs in (
            ([[1, 1, 2], [1, 1, 0], [0, 0, 1], [2, 0, 0]], ([0, 1], [1, 0], ["q0", "q2"], [0, 2], [{"indet": "q1"}, 0])),
            ([[1, 1, 2], [0, 1, 0], [0, 0, 1]], ([0, 1], [0, 2], ["q0", 2], [1, 2], [{"indet": "q0"}, 1], [0, 1, 2], [1, 0])),
        ):
            p = S.make_poly_spec("a", ("q0", "q1", "q2"), rows, (), rng, 4, mode="raw", zero_prob=0.0, literal_prob=0.0)
            for dv in dvs:
                n += 1
                cases.append({"id": "%s-%03d-mixed" % (PROP, n), "op": "derivative", "fn": "derivative", "poly": p, "diffvars": dv, "options": opt, "limits": lim})
    return cases


def main(argv=None) -> int:
    return H.simple_main(
        PROP, MOD, gen_cases,
        rule="one case = (polynomial structure, function, variable designations, option setting); non-trivial = >= 2 feasible paths",
        bounds={"shapes": "0-d..3-d", "terms": "<= 4", "exponents": "<= 3", "option_settings": "all 16 of retain_names/retain_coefficients/sort_graded/sort_reverse",
                "outside": "float rounding; result dtype"},
        functions=["numpoly.derivative", "numpoly.gradient", "numpoly.hessian", "numpoly.align_polynomials", "numpoly.concatenate", "numpoly.remove_redundant_names"],
        argv=argv,
    )


if __name__ == "__main__":
    sys.exit(main())
