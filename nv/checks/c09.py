"""C09 — shape functions and indexing move whole polynomial elements like numpy (E1).

Oracle: the numpy function itself applied to an object array of model polynomials."""
from __future__ import annotations

import itertools
import random
import sys
from typing import Any, Dict, List

import numpy

from .. import harness as H
from .. import model as M
from .. import structures as S
from ..common import check_invariants, snapshot_args, check_unmodified

PROP = "C09"
MOD = "nv.checks.c09"


def _idx(spec):
    """JSON index description -> python index object."""
    if isinstance(spec, list):
        if spec and spec[0] == "tuple":
            return tuple(_idx(s) for s in spec[1:])
        if spec and spec[0] == "slice":
            return slice(spec[1], spec[2], spec[3])
        if spec and spec[0] == "arr":
            return numpy.array(spec[1])
        if spec and spec[0] == "bool":
            return numpy.array(spec[1], dtype=bool)
        if spec and spec[0] == "list":
            return list(spec[1])
    if spec == "newaxis":
        return None
    if spec == "ellipsis":
        return Ellipsis
    return spec


def apply(name: str, par: Dict[str, Any], ops: List[Any], model: bool):
    """Apply operation ``name`` either with numpoly (model=False) or with numpy on model arrays."""
    import numpoly

    lib = numpy if model else numpoly
    a = ops[0]
    if name == "reshape":
        if par.get("order"):
            return lib.reshape(a, tuple(par["shape"]) if isinstance(par["shape"], list) else par["shape"], order=par["order"])
        return lib.reshape(a, tuple(par["shape"]) if isinstance(par["shape"], list) else par["shape"])
    if name == "reshape_method":
        return a.reshape(*par["shape"])
    if name == "transpose":
        return lib.transpose(a, par.get("axes"))
    if name == "T":
        return a.T
    if name == "moveaxis":
        return lib.moveaxis(a, par["source"], par["destination"])
    if name == "expand_dims":
        return lib.expand_dims(a, tuple(par["axis"]) if isinstance(par["axis"], list) else par["axis"])
    if name in ("atleast_1d", "atleast_2d", "atleast_3d"):
        if par.get("multi"):
            return list(getattr(lib, name)(*ops))
        return getattr(lib, name)(a)
    if name == "repeat":
        if par.get("axis") == "omitted":
            return lib.repeat(a, par["repeats"])
        return lib.repeat(a, par["repeats"], axis=par["axis"])
    if name == "tile":
        return lib.tile(a, par["reps"])
    if name in ("concatenate", "stack"):
        return getattr(lib, name)(list(ops), axis=par["axis"])
    if name in ("hstack", "vstack", "dstack"):
        return getattr(lib, name)(list(ops))
    if name in ("split", "array_split"):
        return getattr(lib, name)(a, par["sections"], axis=par["axis"])
    if name in ("hsplit", "vsplit", "dsplit"):
        return getattr(lib, name)(a, par["sections"])
    if name == "diag":
        return lib.diag(a, k=par["k"])
    if name == "diagonal":
        return lib.diagonal(a, offset=par["offset"], axis1=par["axis1"], axis2=par["axis2"])
    if name == "diagonal_method":
        return a.diagonal(par["offset"], par["axis1"], par["axis2"])
    if name == "broadcast_arrays":
        return lib.broadcast_arrays(*ops)
    if name == "where":
        cond = numpy.array(par["cond"], dtype=bool)
        return lib.where(cond, ops[0], ops[1])
    if name == "choose":
        sel = numpy.array(par["sel"])
        kw = {"mode": par["mode"]} if par.get("mode") else {}
        if model:
            return numpy.choose(sel, ops[0], **kw)
        return numpoly.choose(sel, ops[0], **kw)
    if name == "where1":
        # one-argument form: indices of the non-zero polynomials
        if model:
            nz = numpy.array([any(bool(c != 0) for c in e.terms.values()) for e in M.flat_items(a)]).reshape(a.shape)
            return [M.from_numeric(x) for x in numpy.where(nz)]
        return [M.from_numeric(numpy.asarray(x)) for x in numpoly.where(a)]
    if name == "full":
        if model:
            if tuple(a.shape) != ():  # an array-valued fill is broadcast into the shape
                return numpy.broadcast_to(a, tuple(par["shape"])).copy()
            out = numpy.empty(tuple(par["shape"]), dtype=object)
            for i in numpy.ndindex(*out.shape):
                out[i] = a.item()
            return out
        if par.get("order"):
            return numpoly.full(tuple(par["shape"]), a, order=par["order"])
        return numpoly.full(tuple(par["shape"]), a)
    if name == "full_like":
        if model:
            out = numpy.empty(tuple(ops[0].shape), dtype=object)
            for i in numpy.ndindex(*out.shape):
                out[i] = ops[1].item()
            return out
        return numpoly.full_like(ops[0], ops[1])
    if name == "getitem":
        return a[_idx(par["index"])]
    if name == "iter":
        return list(iter(a))
    if name == "ravel":
        return a.ravel()
    if name == "flatten":
        return a.flatten()
    if name == "flat":
        return a.flat if not model else a.ravel()
    raise ValueError(name)


def body(ctx: H.BaseCtx):
    import numpoly

    case = ctx.case
    ops = [ctx.build(s) for s in case["operands"]]
    mops = [ctx.model(s) for s in case["operands"]]
    snap = snapshot_args(ops)
    name, par = case["fn"], case.get("par", {})
    try:
        exp = apply(name, par, mops, True)
    except Exception as e:
        # numpy itself rejects these arguments: nothing to compare (not a valid call)
        ctx.fail("harness-exception", "oracle (numpy) rejected the call: %s: %s" % (type(e).__name__, e))
        return
    try:
        r = apply(name, par, ops, False)
    except Exception as e:
        ctx.unexpected_exception(e, name)
        check_unmodified(ctx, ops, snap)
        return
    in_names = None
    polys = [s for s in case["operands"] if s.get("kind", "poly") == "poly"]
    if isinstance(exp, (list, tuple)):
        if not isinstance(r, (list, tuple)) or len(r) != len(exp):
            ctx.fail("type", "%s returned %s of length %s, expected %d pieces" % (name, type(r).__name__, len(r) if hasattr(r, "__len__") else "?", len(exp)))
        else:
            for i, (ri, ei) in enumerate(zip(r, exp)):
                if not isinstance(ri, numpoly.ndpoly) and name != "where1":
                    ctx.fail("type", "%s piece %d is %s" % (name, i, type(ri).__name__))
                ctx.expect_model(ri, numpy.asarray(ei, dtype=object) if not isinstance(ei, numpy.ndarray) else ei, "%s piece %d" % (name, i))
                check_invariants(ctx, ri, "%s piece %d" % (name, i))
    else:
        if not isinstance(r, numpoly.ndpoly):
            ctx.fail("type", "%s returned %s" % (name, type(r).__name__))
        if not isinstance(exp, numpy.ndarray):
            exp = M.mp_array([exp], ())
        ctx.expect_model(r, exp, name)
        check_invariants(ctx, r, name)
        if len(case["operands"]) == 1 and isinstance(r, numpoly.ndpoly) and name not in ("full", "full_like"):
            if not set(polys[0]["names"]) >= set(r.names) and not set(r.names) >= set(polys[0]["names"]):
                ctx.fail("names", "%s: names %s from input names %s" % (name, tuple(r.names), tuple(polys[0]["names"])))
            if polys[0].get("mode") == "raw" and tuple(r.names) != tuple(polys[0]["names"]):
                ctx.fail("names", "%s: names %s, input had %s" % (name, tuple(r.names), tuple(polys[0]["names"])))
    check_unmodified(ctx, ops, snap)


def body_for(case):
    return body


def run_case(case: Dict) -> Dict:
    return H.simple_run_case(case, body, case["operands"])


def _distinct_poly(prefix, names, shape, rng, nterms=2, maxatoms=8, mode="raw"):
    """Every coefficient a distinct atom (so an element is recognisable wherever it lands)."""
    exps = S.exps_for(len(names), 2, rng, nterms, include_const=rng.random() < 0.5)
    return S.make_poly_spec(prefix, names, exps, shape, rng, maxatoms, zero_prob=0.05, literal_prob=0.0, mode=mode)


THOROUGH_ROUNDS = 40


def gen_cases(tier: str, seed: int) -> List[Dict]:
    """quick: one seeded third of the catalogue; thorough: the whole catalogue, THOROUGH_ROUNDS times with re-drawn operand
    structures (names, term sets, strided views) each round."""
    rng = random.Random(9000 + seed)
    if tier == "quick":
        return _gen_round(rng, True, H.limits(tier), 0)
    out: List[Dict] = []
    for r in range(THOROUGH_ROUNDS):
        out += _gen_round(rng, False, H.limits(tier), r)
    return out


def _gen_round(rng, quick: bool, lim: Dict, rnd: int) -> List[Dict]:
    cases: List[Dict] = []
    n = rnd * 10000

    def add(fn, operands, par=None, tag=""):
        nonlocal n
        n += 1
        cases.append({"id": "%s-%03d-%s%s" % (PROP, n, fn, tag), "op": fn, "fn": fn, "operands": operands, "par": par or {}, "limits": lim})

    names_pool = [("q0",), ("q0", "q1"), ("q2", "q10"), ("q1",)]
    shapes = [(), (1,), (3,), (1, 3), (3, 1), (2, 2), (2, 3), (1, 1), (2, 1, 2), (1, 2, 2), (2, 2, 1)]

    def P(shape, prefix="a", nterms=None, names=None):
        size = S.size_of(shape)
        nt = nterms or (1 if size > 6 else rng.choice([1, 2]))
        # a third of the operands are strided views (poly.T, poly[::-1], swapaxes) of a base array
        view = rng.choice([None, None, "T", "rev", "swap"]) if len(shape) >= 1 and size > 1 else None
        base = tuple(shape)
        if view == "T":
            base = tuple(reversed(shape))
        elif view == "swap":
            base = (shape[-1],) + tuple(shape[1:-1]) + (shape[0],) if len(shape) >= 2 else tuple(shape)
        spec = _distinct_poly(prefix, names or rng.choice(names_pool), base, rng, nt, maxatoms=10 if quick else 14)
        if view:
            spec["view"] = view
        return spec

    # reshape (function + method), ravel/flatten/T/flat, iteration
    for shape in shapes:
        size = S.size_of(shape)
        targets = {(size,), (1, size), (size, 1), (-1,), ()} if size == 1 else {(size,), (1, size), (size, 1), (-1,)}
        if size == 4:
            targets |= {(2, 2), (2, -1), (1, 2, 2)}
        if size == 6:
            targets |= {(3, 2), (2, 3), (-1, 2)}
        for t in sorted(targets)[: (3 if quick else 10)]:
            add("reshape", [P(shape)], {"shape": list(t)})
        add("reshape_method", [P(shape)], {"shape": [size]})
        if len(shape) >= 2 and size > 1:
            for order in ("C", "F", "A"):
                add("reshape", [P(shape)], {"shape": [size], "order": order}, tag="-idx-order%s" % order)
                add("reshape", [P(shape)], {"shape": list(reversed(shape)), "order": order}, tag="-idx-order%s" % order)
        add("reshape", [P(shape)], {"shape": size}, tag="-int")
        for f in ("ravel", "flatten", "T", "flat"):
            add(f, [P(shape)])
        if shape:
            add("iter", [P(shape)])
    # transpose / moveaxis / expand_dims / atleast_nd
    for shape in shapes:
        nd = len(shape)
        perms = list(itertools.permutations(range(nd))) if nd else [None]
        for ax in (perms if not quick else perms[:3]):
            add("transpose", [P(shape)], {"axes": list(ax) if ax is not None else None})
        add("transpose", [P(shape)], {"axes": None})
        for s_ in range(-nd, nd):
            for d_ in range(-nd, nd):
                if quick and rng.random() < 0.6:
                    continue
                add("moveaxis", [P(shape)], {"source": s_, "destination": d_})
        for ax in range(-nd - 1, nd + 1):
            if quick and rng.random() < 0.5:
                continue
            add("expand_dims", [P(shape)], {"axis": ax})
        for f in ("atleast_1d", "atleast_2d", "atleast_3d"):
            add(f, [P(shape)])
    # repeat / tile
    for shape in [(), (2,), (1, 3), (2, 2), (2, 1, 2)]:
        nd = len(shape)
        for ax in ([None] if nd == 0 else list(range(-nd, nd)) + [None]):
            add("repeat", [P(shape)], {"repeats": rng.choice([1, 2, 3]), "axis": ax})
        if nd:
            ax = rng.randrange(nd)
            add("repeat", [P(shape)], {"repeats": [rng.choice([0, 1, 2]) for _ in range(shape[ax])], "axis": ax}, tag="-arr")
        add("repeat", [P(shape)], {"repeats": 2, "axis": "omitted"}, tag="-idx-default")
        for reps in (2, [2], [1, 2], [2, 1, 2]):
            add("tile", [P(shape)], {"reps": reps})
    # joins with operands of differing name / term sets
    join_shapes = [((2,), (3,), 0), ((1, 2), (2, 2), 0), ((2, 1), (2, 2), 1), ((2, 1, 2), (2, 2, 2), 1), ((2, 2), (2, 2), -1)]
    for s1, s2, ax in join_shapes:
        for f in ("concatenate",):
            add(f, [P(s1, "a", names=("q0", "q2")), P(s2, "b", names=("q1",))], {"axis": ax})
            add(f, [P(s1, "a"), P(s2, "b"), P(s1, "c", nterms=1)], {"axis": ax}, tag="-3")
    for s1 in [(), (2,), (1, 2), (2, 2)]:
        for ax in range(-len(s1) - 1, len(s1) + 1):
            add("stack", [P(s1, "a", names=("q0",)), P(s1, "b", names=("q10", "q2")[::-1])], {"axis": ax})
        for f in ("hstack", "vstack", "dstack"):
            add(f, [P(s1, "a", names=("q0", "q1")), P(s1, "b", names=("q1", "q2"))])
    add("concatenate", [P((2,), "a"), S.make_numeric_spec("c", "array", (2,), rng, 2)], {"axis": 0}, tag="-num")
    # splits
    for shape in [(4,), (2, 2), (2, 4), (1, 4), (2, 2, 2), (3, 2)]:
        nd = len(shape)
        for ax in range(nd):
            for sec in [k for k in (1, 2, 3, 4) if shape[ax] % k == 0]:
                add("split", [P(shape)], {"sections": sec, "axis": ax})
            add("split", [P(shape)], {"sections": [1], "axis": ax}, tag="-idx")
            add("array_split", [P(shape)], {"sections": 3, "axis": ax})
        if nd >= 1:
            add("hsplit", [P(shape)], {"sections": 2 if shape[1 if nd > 1 else 0] % 2 == 0 else 1})
        if nd >= 2:
            add("vsplit", [P(shape)], {"sections": 2 if shape[0] % 2 == 0 else 1})
        if nd >= 3:
            add("dsplit", [P(shape)], {"sections": 2})
    for shape in [(2, 2), (2, 4), (2, 2, 2)]:
        for f in ("hsplit", "vsplit", "dsplit", "split", "array_split"):
            if f == "dsplit" and len(shape) < 3:
                continue
            sp = dict(P(shape, nterms=2), pre=["pickle"])
            sp.pop("view", None)
            if f in ("split", "array_split"):
                add(f, [sp], {"sections": 2, "axis": 0}, tag="-idx-pickled")
            else:
                add(f, [sp], {"sections": 2}, tag="-idx-pickled")
    # diag / diagonal incl. single-row matrices
    for shape in [(3,), (1,), (2, 2), (1, 3), (3, 1), (2, 3), (1, 1)]:
        for k in (-2, -1, 0, 1, 2):
            add("diag", [P(shape)], {"k": k})
    for shape in [(2, 2), (1, 3), (3, 1), (2, 3), (2, 2, 2), (1, 2, 3)]:
        nd = len(shape)
        for a1, a2 in itertools.permutations(range(nd), 2):
            for off in (-1, 0, 1):
                if quick and rng.random() < 0.5:
                    continue
                add("diagonal", [P(shape)], {"offset": off, "axis1": a1, "axis2": a2})
        add("diagonal_method", [P(shape)], {"offset": 0, "axis1": 0, "axis2": 1})
    # broadcast_arrays / where / choose / full / full_like
    for s1, s2 in [((), (2,)), ((2, 1), (1, 2)), ((2,), (2, 2)), ((1,), (3,)), ((2, 1, 2), (2,))]:
        add("broadcast_arrays", [P(s1, "a", names=("q0",)), P(s2, "b", names=("q1", "q2"))])
        bshape = numpy.broadcast_shapes(s1, s2)
        cond = (numpy.arange(S.size_of(bshape)).reshape(bshape) % 2 == 0).tolist()
        add("where", [P(s1, "a", names=("q0", "q2")), P(s2, "b", names=("q1",))], {"cond": cond})
        add("where", [P(s1, "a"), S.make_numeric_spec("c", "scalar", (), rng, 1)], {"cond": cond}, tag="-num")
    # where: uniform conditions, and conditions whose shape is not covered by the operands' own broadcast shape
    for s1, s2, cshape in [((), (), (3,)), ((2,), (2,), (2, 1)), ((1, 3), (), (2, 3)), ((2,), (), (2,)), ((), (2, 1), (1, 2))]:
        full = numpy.broadcast_shapes(s1, s2, cshape)
        for fill in (True, False, None):
            cond = numpy.full(cshape, bool(fill)) if fill is not None else (numpy.arange(S.size_of(cshape)).reshape(cshape) % 2 == 1)
            add("where", [P(s1, "a", names=("q0", "q1")), P(s2, "b", names=("q1",))], {"cond": cond.tolist()}, tag="-cond%s" % ("T" if fill else "F" if fill is False else "M"))
    # operands with many stored terms (70), storage order shuffled / descending: joins must match terms by exponent, not by position
    def many(prefix, shape, order, names=("q0",)):
        rows = [[e] + [0] * (len(names) - 1) for e in range(70)]
        if order == "desc":
            rows = rows[::-1]
        elif order == "shuffled":
            rng.shuffle(rows)
        n_ = S.size_of(shape)
        slots = [[((r[0] * 7 + i * 3) % 11) - 5 for i in range(n_)] for r in rows]
        return {"kind": "poly", "names": list(names), "exps": rows, "shape": list(shape), "slots": slots, "mode": "raw"}

    for order in ("desc", "shuffled"):
        add("concatenate", [many("a", (2,), order), P((2,), "b", nterms=2, names=("q0",))], {"axis": 0}, tag="-idx-manyterms")
        add("stack", [many("a", (2,), order), many("b", (2,), "asc")], {"axis": 0}, tag="-idx-manyterms")
        add("where", [many("a", (2,), order), many("b", (2,), "desc")], {"cond": [True, False]}, tag="-idx-manyterms")
        add("vstack", [many("a", (2,), order, names=("q0", "q1")), P((2,), "b", nterms=2, names=("q1",))], tag="-idx-manyterms")
    # less-used argument forms
    for f in ("atleast_1d", "atleast_2d", "atleast_3d"):
        add(f, [P((), "a"), P((2,), "b"), P((1, 2), "c", nterms=1)], {"multi": True}, tag="-idx-multi")
    for shape in [(2, 1, 2), (1, 2, 2)]:
        add("moveaxis", [P(shape)], {"source": [0, 1], "destination": [-1, 0]}, tag="-idx-seq")
        add("moveaxis", [P(shape)], {"source": [0, 2], "destination": [1, 0]}, tag="-idx-seq")
        add("transpose", [P(shape)], {"axes": [-1, 0, -2]}, tag="-idx-neg")
        add("expand_dims", [P(shape)], {"axis": [0, -1]}, tag="-idx-tuple")
    add("concatenate", [P((2, 2), "a", names=("q0",)), P((1, 2), "b", names=("q1",))], {"axis": None}, tag="-idx-axisnone")
    add("choose", [P((3,), "a")], {"sel": [0, 4, -1, 2], "mode": "wrap"}, tag="-idx-wrap")
    add("choose", [P((3,), "a")], {"sel": [0, 4, -1, 2], "mode": "clip"}, tag="-idx-clip")
    for shape in [(3,), (2, 2)]:
        add("where1", [S.make_poly_spec("a", ("q0", "q1"), [[0, 0], [1, 0]], shape, rng, 3, zero_prob=0.4, literal_prob=0.1, mode="raw")], tag="-idx-onearg")
    add("choose", [P((3,), "a")], {"sel": [0, 2, 1, 0]})
    add("choose", [P((2, 2), "a")], {"sel": [1, 0]})
    add("choose", [P((3, 2), "a")], {"sel": [[0, 1], [2, 0]]})
    for shape in [(), (2,), (2, 2), (1, 2, 1)]:
        add("full", [P((), "a", nterms=2)], {"shape": list(shape)})
        add("full_like", [P(shape, "a"), P((), "b", nterms=2, names=("q1", "q2"))])
    # array-valued fills broadcast into the shape, in both memory orders
    for shape, fshape in [((2, 3), (3,)), ((3, 2), (3, 1)), ((2, 2, 2), (2, 1, 2)), ((2, 3), ())]:
        for order in ("C", "F"):
            sp = S.make_poly_spec("a", ("q0", "q1"), [[1, 0], [0, 2]], fshape, rng, 3, zero_prob=0.0, literal_prob=0.2, mode="raw")
            sp.pop("pre", None)
            add("full", [sp], {"shape": list(shape), "order": order}, tag="-idx-order%s" % order)
    # indexing: basic and advanced from a fixed grammar
    index_cases = {
        (3,): [0, -1, ["slice", None, None, None], ["slice", 1, None, None], ["slice", None, None, -1], ["slice", 0, 3, 2], ["arr", [2, 0]], ["bool", [True, False, True]], "newaxis", "ellipsis", ["list", [1, 1]]],
        (2, 3): [0, ["tuple", 1, 2], ["tuple", ["slice", None, None, None], 1], ["tuple", ["slice", None, None, -1], ["slice", 1, None, None]], ["tuple", ["arr", [1, 0]], ["arr", [2, 0]]],
                 ["tuple", ["arr", [[0], [1]]], ["arr", [0, 2]]], ["bool", [[True, False, True], [False, False, True]]], ["tuple", "ellipsis", 0], ["tuple", "newaxis", 1], ["tuple", 0, "newaxis"],
                 ["tuple", ["arr", [0, 1]], "newaxis", ["arr", [1, 2]]], ["bool", [True, False]], ["tuple", ["slice", None, None, None], ["bool", [True, False, True]]]],
        (2, 1, 2): [1, ["tuple", 0, 0], ["tuple", ["slice", None, None, None], 0, ["slice", None, None, -1]], ["tuple", ["arr", [1, 0]], ["slice", None, None, None], ["arr", [0, 1]]],
                    ["tuple", 0, ["slice", None, None, None], ["arr", [0, 1]]], ["tuple", "ellipsis", 1], ["tuple", ["arr", [0, 1]], 0, ["arr", [1, 1]]], ["tuple", 1, "ellipsis", "newaxis"]],
        (1, 3): [0, ["tuple", 0, ["arr", [2, 1]]], ["tuple", ["slice", None, None, None], ["slice", None, None, 2]]],
        (): [["tuple"], "ellipsis", "newaxis"],
    }
    for shape, idxs in index_cases.items():
        for ix in idxs:
            # (advanced indices -- where numpy decides the placement of the broadcast axis -- are kept in every quick sample)
            add("getitem", [P(shape)], {"index": ix}, tag="-idx-adv" if isinstance(ix, list) and ix[0] == "tuple" and any(isinstance(t, list) and t[0] == "arr" for t in ix[1:]) else "")
    if quick:
        # keep the quick tier within budget: seeded sample of the catalogue, every function kept at least 3 times
        byfn: Dict[str, List[Dict]] = {}
        for c in cases:
            byfn.setdefault(c["fn"], []).append(c)
        keep: List[Dict] = []
        for fn, cs in byfn.items():
            rng.shuffle(cs)
            must = [c for c in cs if "-cond" in c["id"] or "-idx" in c["id"]]
            rest = [c for c in cs if c not in must]
            keep.extend(must + rest[: max(6, len(rest) // 3)])
        cases = sorted(keep, key=lambda c: c["id"])
    return cases


def main(argv=None) -> int:
    return H.simple_main(
        PROP, MOD, gen_cases,
        rule="one case = (function, argument values, operand structures with a distinct atom per element); non-trivial = >= 2 feasible paths "
        "or an element-placement comparison of >= 2 distinct atoms",
        bounds={"shapes": "0-d..3-d, <= 8 elements, incl. size-1 axes and single-row matrices", "functions": 36,
                "arguments": "bounded-exhaustive axes / permutations / sections / k / index grammar (thorough); seeded third of it (quick)",
                "outside": "dtype preservation (C12), order= arguments, out= arguments"},
        functions=["numpoly.reshape", "transpose", "moveaxis", "expand_dims", "atleast_1d/2d/3d", "repeat", "tile", "concatenate", "stack", "hstack", "vstack", "dstack",
                   "split", "array_split", "hsplit", "vsplit", "dsplit", "diag", "diagonal", "broadcast_arrays", "where", "choose", "full", "full_like",
                   "ndpoly.__getitem__", "ndpoly.__iter__", "ndpoly.flat", "ravel/flatten/T/reshape (ndarray methods on the raw storage)"],
        argv=argv,
    )


if __name__ == "__main__":
    sys.exit(main())
