"""C10 — reductions and linear algebra equal finite sums and products of elements (E1)."""
from __future__ import annotations

import itertools
from fractions import Fraction
import random
import sys
from typing import Any, Dict, List

import numpy

from .. import harness as H
from .. import model as M
from .. import structures as S
from ..common import check_invariants, snapshot_args, check_unmodified

PROP = "C10"
MOD = "nv.checks.c10"


def _perm_sign(p):
    s = 1
    p = list(p)
    for i in range(len(p)):
        while p[i] != i:
            j = p[i]
            p[i], p[j] = p[j], p[i]
            s = -s
    return s


def model_det(a: numpy.ndarray) -> numpy.ndarray:
    n = a.shape[-1]
    lead = a.shape[:-2]
    out = numpy.empty(lead, dtype=object)
    for idx in numpy.ndindex(*lead):
        m = a[idx]
        tot = M.MP()
        for perm in itertools.permutations(range(n)):
            term = M.MP.const(_perm_sign(perm))
            for i in range(n):
                term = term * m[i, perm[i]]
            tot = tot + term
        out[idx] = tot
    return out


def _ax(a):
    return tuple(a) if isinstance(a, list) else a


def apply(name: str, par: Dict[str, Any], ops: List[Any], model: bool):
    import numpoly

    lib = numpy if model else numpoly
    a = ops[0]
    # dtype= keyword: native library calls only (the exact carrier has no dtypes); the values must not depend on it
    dkw = {"dtype": par["dtype"]} if (par.get("dtype") and not model and getattr(a, "dtype", None) is not None and a.dtype != object) else {}
    if name in ("sum", "prod"):
        return getattr(lib, name)(a, axis=_ax(par.get("axis")), keepdims=par.get("keepdims", False), **dkw)
    if name == "sum_method":
        return a.sum(axis=_ax(par.get("axis")), keepdims=par.get("keepdims", False))
    if name == "prod_method":
        return a.prod(axis=_ax(par.get("axis")), keepdims=par.get("keepdims", False))
    if name == "add.reduce":
        return numpy.add.reduce(a, axis=par.get("axis", 0), keepdims=par.get("keepdims", False))
    if name == "multiply.reduce":
        return numpy.multiply.reduce(a, axis=par.get("axis", 0))
    if name == "add.accumulate":
        return numpy.add.accumulate(a, axis=par.get("axis", 0))
    if name == "cumsum":
        return lib.cumsum(a, axis=par.get("axis"), **dkw)
    if name == "cumsum_method":
        return a.cumsum(axis=par.get("axis"))
    if name == "mean":
        return lib.mean(a, axis=_ax(par.get("axis")), **dkw)
    if name == "mean_method":
        return a.mean(axis=_ax(par.get("axis")))
    if name == "diff":
        kw = {}
        if par.get("prepend") is not None:
            kw["prepend"] = ops[par["prepend"]]
        if par.get("append") is not None:
            kw["append"] = ops[par["append"]]
        if par.get("positional"):  # diff(a, n, axis, prepend, append): numpy's parameter order
            args = [par.get("n", 1), par.get("axis", -1)]
            if "prepend" in kw or "append" in kw:
                args.append(kw["prepend"] if "prepend" in kw else numpy._NoValue)
            if "append" in kw:
                args.append(kw["append"])
            return lib.diff(a, *args)
        return lib.diff(a, n=par.get("n", 1), axis=par.get("axis", -1), **kw)
    if name == "ediff1d":
        kw = {}
        if par.get("to_end") is not None:
            kw["to_end"] = ops[par["to_end"]]
        if par.get("to_begin") is not None:
            kw["to_begin"] = ops[par["to_begin"]]
        return lib.ediff1d(a, **kw)
    if name == "multiply":
        return lib.multiply(ops[0], ops[1], **dkw)
    if name == "inner":
        return lib.inner(ops[0], ops[1])
    if name == "outer":
        return lib.outer(ops[0], ops[1])
    if name == "matmul":
        return lib.matmul(ops[0], ops[1], **dkw)
    if name == "matmul_op":
        return ops[0] @ ops[1]
    if name == "det":
        return model_det(a) if model else numpoly.det(a)
    if name == "linalg.det":
        return model_det(a) if model else numpy.linalg.det(a)
    raise ValueError(name)


def body_special(ctx: H.BaseCtx):
    """Native only: nan / inf entries.  Reference = the element-wise formula in IEEE arithmetic (left fold for sums and products,
    Leibniz sum for determinants).  A reference that is nan must give nan (a special value may not silently disappear); a
    finite reference must be matched; an infinite reference is not judged (its sign depends on the grouping)."""
    import itertools as it
    import numpoly
    from .. import special as SP

    if ctx.symbolic:
        return
    case = ctx.case
    k = case["k"]
    vals = [SP.NAN, SP.INF, -SP.INF][k % 3]

    def judge(got, ref, what):
        got = numpy.asarray(got, dtype=float)
        ref = numpy.asarray(ref, dtype=float)
        if got.shape != ref.shape:
            ctx.fail("shape", "%s: shape %s, expected %s" % (what, got.shape, ref.shape))
            return
        for g, r in zip(got.reshape(-1), ref.reshape(-1)):
            if numpy.isnan(r) and not numpy.isnan(g):
                ctx.fail("value", "%s: the element-wise formula gives nan, the result is %r" % (what, float(g)))
                return
            if numpy.isfinite(r) and not (numpy.isfinite(g) and abs(g - r) <= 1e-9 * max(1.0, abs(r))):
                ctx.fail("value", "%s: %r, expected %r" % (what, float(g), float(r)))
                return

    with numpy.errstate(all="ignore"):
        # determinants: nan entries only (with an infinite entry the outcome legitimately depends on how the sum is grouped:
        # inf*(a-b) is inf where inf*a - inf*b is nan)
        for n in (2, 3, 4) if numpy.isnan(vals) else ():
            rng = random.Random(1000 * k + n)
            mats = []
            for _rep in range(6):
                a = numpy.array([[float(rng.choice([0, 0, 1, 2, -1, 3])) for _ in range(n)] for _ in range(n)])
                a[rng.randrange(n), rng.randrange(n)] = vals
                mats.append(a)
            # the nan sits only in minors of entries that are zero (for an expansion along the first/last row or column)
            for line in (0, n - 1):
                for j in range(n):
                    a = numpy.array([[float(rng.choice([1, 2, -1, 3])) for _ in range(n)] for _ in range(n)])
                    a[line, :] = 0.0
                    a[line, j] = 1.0
                    a[(line + 1) % n, j] = vals
                    mats.append(a)
                    mats.append(a.T.copy())
            for a in mats:
                ref = 0.0
                for perm in it.permutations(range(n)):
                    sign = 1
                    for x in range(n):
                        for y in range(x + 1, n):
                            if perm[x] > perm[y]:
                                sign = -sign
                    term = float(sign)
                    for row in range(n):
                        term = term * a[row, perm[row]]
                    ref = ref + term
                try:
                    d = numpoly.det(numpoly.polynomial(a))
                    judge(numpoly.tonumpy(d), ref, "det of %s" % a.tolist())
                    # (constant entries only: a zero *polynomial* entry stores no term at all, so 0*q0 times inf*q0 is never
                    # formed and the sparse product is legitimately 0 there)
                except Exception as e:
                    ctx.unexpected_exception(e, "det (special values)")
        if k == 0:
            # functions that are linear in the coefficients: term by term they are numpy's function on the coefficient array
            for label, p in SP.zoo((2, 3)):
                for fname, nf in (("sum", lambda c: numpy.sum(c, axis=0)), ("sum_all", lambda c: numpy.sum(c)), ("mean", lambda c: numpy.mean(c, axis=1)), ("mean_all", lambda c: numpy.mean(c)),
                                  ("cumsum", lambda c: numpy.cumsum(c, axis=1)), ("diff", lambda c: numpy.diff(c, axis=1)), ("mean_method", lambda c: numpy.mean(c, axis=0))):
                    src = SP.zoo((2, 3), only=label)[0][1]
                    try:
                        got = {"sum": lambda: numpoly.sum(src, axis=0), "sum_all": lambda: numpoly.sum(src), "mean": lambda: numpoly.mean(src, axis=1), "mean_all": lambda: numpy.mean(src),
                               "cumsum": lambda: numpoly.cumsum(src, axis=1), "diff": lambda: numpoly.diff(src, axis=1), "mean_method": lambda: src.mean(axis=0)}[fname]()
                    except Exception as e:
                        ctx.unexpected_exception(e, "%s on %s" % (fname, label))
                        continue
                    SP.termwise(ctx, got, nf, p, "%s of an array with %s coefficients" % (fname, label))
        v = numpy.array([2.0, vals, 0.0, -1.0, 0.5])
        for fn, ref in (("sum", numpy.add.reduce(v)), ("prod", numpy.multiply.reduce(v)), ("cumsum", numpy.add.accumulate(v))):
            try:
                judge(numpoly.tonumpy(getattr(numpoly, fn)(numpoly.polynomial(v))), ref, "%s of %s" % (fn, v.tolist()))
            except Exception as e:
                ctx.unexpected_exception(e, fn + " (special values)")


def body(ctx: H.BaseCtx):
    import numpoly

    case = ctx.case
    if case.get("fn") == "special":
        return body_special(ctx)
    ops = [ctx.build(s) for s in case["operands"]]
    mops = [ctx.model(s) for s in case["operands"]]
    snap = snapshot_args(ops)
    name, par = case["fn"], case.get("par", {})
    try:
        exp = apply(name, par, mops, True)
    except Exception as e:
        ctx.fail("harness-exception", "oracle (numpy) rejected the call: %s: %s" % (type(e).__name__, e))
        return
    try:
        r = apply(name, par, ops, False)
    except Exception as e:
        ctx.unexpected_exception(e, name)
        check_unmodified(ctx, ops, snap)
        return
    if not isinstance(exp, numpy.ndarray):
        exp = M.mp_array([M.MP.lift(exp)], ())
    if not isinstance(r, numpoly.ndpoly):
        ctx.fail("type", "%s returned %s" % (name, type(r).__name__))
    ctx.expect_model(r, exp, name)
    check_invariants(ctx, r, name)
    check_unmodified(ctx, ops, snap)


def body_for(case):
    return body


def run_case(case: Dict) -> Dict:
    return H.simple_run_case(case, body, case["operands"])


def gen_cases(tier: str, seed: int) -> List[Dict]:
    rng = random.Random(10000 + seed)
    quick = tier == "quick"
    lim = H.limits(tier, quick=(2000, 45.0), thorough=(20000, 300.0))
    cases: List[Dict] = []
    n = 0
    names_pool = [("q0",), ("q0", "q1"), ("q2", "q10")]

    def add(fn, operands, par=None, tag=""):
        nonlocal n
        n += 1
        cases.append({"id": "%s-%03d-%s%s" % (PROP, n, fn, tag), "op": fn, "fn": fn, "operands": operands, "par": par or {}, "limits": lim})

    def P(shape, prefix="a", nterms=None, names=None, atoms=None, maxexp=1, zero=0.1):
        nm = names or rng.choice(names_pool)
        nt = nterms or rng.choice([1, 2])
        exps = S.exps_for(len(nm), maxexp, rng, nt, include_const=rng.random() < 0.5)
        view = rng.choice([None, None, None, "T", "rev", "swap"]) if len(shape) >= 2 and S.size_of(shape) > 1 else (rng.choice([None, None, "rev"]) if len(shape) == 1 and shape[0] > 1 else None)
        base = tuple(shape)
        if view == "T":
            base = tuple(reversed(shape))
        elif view == "swap":
            base = (shape[-1],) + tuple(shape[1:-1]) + (shape[0],)
        spec = S.make_poly_spec(prefix, nm, exps, base, rng, atoms if atoms is not None else (6 if quick else 9), zero_prob=zero, literal_prob=0.15, mode=rng.choice(["raw", "clean"]))
        if view:
            spec["view"] = view
        return spec

    def axes_for(shape):
        nd = len(shape)
        out = [None] + list(range(-nd, nd))
        for k in (2, 3):
            for t in itertools.combinations(range(nd), k):
                out.append(list(t))
        return out

    shapes = [(3,), (1,), (2, 2), (1, 3), (2, 1, 2), (2, 2, 2)] if quick else [(3,), (1,), (4,), (2, 2), (1, 3), (3, 1), (2, 3), (2, 1, 2), (1, 2, 2), (2, 2, 2)]
    for shape in shapes:
        for ax in axes_for(shape):
            for kd in (False, True):
                if quick and rng.random() < 0.5:
                    continue
                add("sum", [P(shape)], {"axis": ax, "keepdims": kd})
                if S.size_of(shape) <= 4 or rng.random() < 0.4:
                    add("prod", [P(shape, nterms=1 if S.size_of(shape) > 3 else None, atoms=4)], {"axis": ax, "keepdims": kd})
            if not isinstance(ax, list):
                add("cumsum", [P(shape)], {"axis": ax})
            add("mean", [P(shape)], {"axis": ax})
        add("sum_method", [P(shape)], {"axis": rng.choice(axes_for(shape))})
        add("mean_method", [P(shape)], {"axis": rng.choice(axes_for(shape))})
        add("cumsum_method", [P(shape)], {"axis": rng.choice([None, 0, -1])})
        add("prod_method", [P(shape, atoms=3, nterms=1)], {"axis": rng.choice([None, 0, -1])})
        for ax in range(len(shape)):
            add("add.reduce", [P(shape)], {"axis": ax, "keepdims": rng.random() < 0.3})
            add("add.accumulate", [P(shape)], {"axis": ax})
        add("multiply.reduce", [P(shape, atoms=3, nterms=1)], {"axis": 0})
    # long axes (every length 5..13 quick / 5..33 thorough): anything that folds an axis pairwise, in blocks or by halving must
    # agree with the plain left fold for every length, not only the short ones above
    for L in range(5, 14 if quick else 34):
        for shape, ax in (((L,), 0), ((2, L), 1)) if (not quick or L % 2) else (((L,), 0),):
            exps = [[0], [1]]
            sp = S.make_poly_spec("a", ("q0",), exps, shape, rng, 4, zero_prob=0.0, literal_prob=1.0, mode="raw")
            # literal +-1 / 2 coefficients with a few atoms sprinkled in: products stay small, every element differs
            k = 0
            for col in sp["slots"]:
                for i in range(len(col)):
                    col[i] = rng.choice([1, -1, 2, 1])
                    if rng.random() < 0.25 and k < 3:
                        col[i] = "a%d" % k
                        k += 1
            lit = dict(sp, slots=[[(v if not isinstance(v, str) else 2) for v in col] for col in sp["slots"]])  # products: literals only (degree L in an atom is beyond the solver)
            add("prod", [lit], {"axis": ax, "keepdims": False}, tag="-long%d" % L)
            add("sum", [sp], {"axis": ax, "keepdims": rng.random() < 0.3}, tag="-long%d" % L)
            add("cumsum", [sp], {"axis": ax}, tag="-long%d" % L)
            if L <= 9:
                add("diff", [sp], {"n": rng.choice([1, 2, 3]), "axis": ax}, tag="-long%d" % L)
        add("multiply.reduce", [S.make_poly_spec("a", ("q0", "q1"), [[1, 0], [0, 1]], (L,), rng, 2, zero_prob=0.3, literal_prob=1.0, mode="raw")], {"axis": 0}, tag="-long%d" % L)
    # diff / ediff1d
    for shape in [(3,), (4,), (2, 3), (3, 2), (2, 2, 2)]:
        for ax in range(-len(shape), len(shape)):
            for nn in (1, 2):
                if shape[ax] <= nn and False:
                    continue
                add("diff", [P(shape)], {"n": nn, "axis": ax})
        ax = -1
        pshape = tuple(list(shape[:-1]) + [1])
        add("diff", [P(shape, "a"), P(pshape, "b", names=("q1",))], {"n": 1, "axis": ax, "prepend": 1}, tag="-prepend")
        add("diff", [P(shape, "a"), P(pshape, "b", names=("q1",))], {"n": 2, "axis": ax, "append": 1}, tag="-append")
        add("diff", [P(shape, "a"), P(pshape, "b", names=("q1",))], {"n": 1, "axis": ax, "prepend": 1, "positional": True}, tag="-prepend-positional")
        add("diff", [P(shape, "a", atoms=4), P(pshape, "b", atoms=2), P(pshape, "c", atoms=2)], {"n": 1, "axis": ax, "prepend": 1, "append": 2, "positional": True}, tag="-both-positional")
        add("diff", [P(shape, "a", atoms=4), P(pshape, "b", atoms=2), P(pshape, "c", atoms=2)], {"n": 1, "axis": ax, "prepend": 1, "append": 2}, tag="-both")
        add("ediff1d", [P(shape)])
        add("ediff1d", [P(shape, "a", atoms=4), P((2,), "b", names=("q3",), atoms=2)], {"to_end": 1}, tag="-end")
        add("ediff1d", [P(shape, "a", atoms=4), P((), "b", atoms=1), P((1,), "c", atoms=1)], {"to_end": 1, "to_begin": 2}, tag="-both")
    # operands of different coefficient types: an integer array next to fractional (floating) partners -- the result holds the
    # exact values (natively: numpy's common type), nothing is cast back to the first operand's type
    def typed(sp, dt, frac):
        sp = dict(sp, dtype=dt)
        sp.pop("pre", None)
        if frac:
            sp["slots"] = [[S.lit(Fraction(rng.choice([1, 3, -5, 7]), rng.choice([2, 4]))) for _ in col] for col in sp["slots"]]
        return sp

    for shape in [(3,), (2, 2)]:
        pshape = tuple(list(shape[:-1]) + [1])
        ia = lambda: typed(P(shape, "a", atoms=0), "int64", False)
        fb = lambda nm=None: typed(P(pshape, "b", names=nm, atoms=0), "float64", True)
        add("diff", [ia(), fb()], {"n": 1, "axis": -1, "prepend": 1}, tag="-prepend-mixedtypes")
        add("diff", [ia(), fb(("q1",))], {"n": 2, "axis": -1, "append": 1}, tag="-append-mixedtypes")
        add("diff", [ia(), fb(), {"kind": "scalar", "shape": [], "slots": [S.lit(Fraction(1, 2))], "carrier": "pyfloat"}], {"n": 1, "axis": -1, "prepend": 1, "append": 2}, tag="-both-mixedtypes")
        # (numpy.ediff1d refuses ends that do not cast to the array's type under "same_kind": only such choices are in the claim)
        fa = lambda: typed(P(shape, "a", atoms=0), "float64", True)
        add("ediff1d", [fa(), typed(P((2,), "b", atoms=0), "int64", False)], {"to_end": 1}, tag="-end-mixedtypes")
        add("ediff1d", [fa(), typed(P((), "b", atoms=0), "float32", True), typed(P((1,), "c", atoms=0), "int32", False)], {"to_end": 1, "to_begin": 2}, tag="-both-mixedtypes")
    add("inner", [typed(P((2,), "a", atoms=0), "int64", False), typed(P((2,), "b", atoms=0), "float64", True)], tag="-mixedtypes")
    add("outer", [typed(P((2,), "a", atoms=0), "float32", True), typed(P((2,), "b", atoms=0), "int64", False)], tag="-mixedtypes")
    add("ediff1d", [P((1,))], tag="-single")
    add("diff", [P((1,))], {"n": 1, "axis": 0}, tag="-single")
    # inner (vectors) / outer
    for k in (1, 2, 3):
        add("inner", [P((k,), "a", atoms=3, names=("q0", "q1")), P((k,), "b", atoms=3, names=("q1",))])
    for s1, s2 in [((2,), (3,)), ((1,), (2,)), ((2, 2), (2,)), ((), (2,))]:
        add("outer", [P(s1, "a", atoms=3), P(s2, "b", atoms=3, names=("q1", "q2"))])
    for view in ("T", "swap", "rev"):
        a = P((3, 2), "a", atoms=4)
        a["view"] = view
        a["shape"] = [2, 3] if view != "rev" else [3, 2]
        a["slots"] = [col[:6] for col in a["slots"]]
        b = P((2,), "b", atoms=2, names=("q1",))
        b.pop("view", None)
        add("outer", [a, b], tag="-view%s" % view)
        add("outer", [b, a], tag="-view%s" % view)
    # matmul: vectors, matrices 1x1..3x3, stacked
    mm = [((2,), (2,)), ((2, 2), (2,)), ((2,), (2, 2)), ((1, 1), (1, 1)), ((2, 2), (2, 2)), ((1, 2), (2, 3)), ((3, 3), (3, 3)), ((2, 2, 2), (2, 2)), ((2, 1, 2), (2, 2, 1)), ((2, 2), (2, 2, 2))]
    for s1, s2 in mm if not quick else mm[:8]:
        big = S.size_of(s1) * S.size_of(s2) > 16
        add("matmul", [P(s1, "a", atoms=3, nterms=1 if big else None), P(s2, "b", atoms=3, nterms=1, names=("q1",))])
    add("matmul_op", [P((2, 2), "a", atoms=3), P((2, 2), "b", atoms=3)])
    # det: 1x1 .. 3x3 (4x4 thorough), stacked; every entry a distinct atom
    for k in (1, 2, 3) if quick else (1, 2, 3, 4):
        nm = ("q0",)
        spec = S.make_poly_spec("a", nm, [[0]] if k >= 3 else [[0], [1]], (k, k), rng, 16, zero_prob=0.1, literal_prob=0.0, mode="raw")
        add("det", [spec], tag="-%dx%d" % (k, k))
        add("linalg.det", [S.make_poly_spec("a", nm, [[1]], (k, k), rng, 16, zero_prob=0.2, literal_prob=0.0, mode="raw")], tag="-%dx%d" % (k, k))
    # dtype= keyword (values must not depend on it): float64 / float32 / int64 requested for integer operands
    for dt in ("float64", "float32", "int64"):
        add("matmul", [P((2, 2), "a", atoms=3, nterms=2, names=("q0", "q1")), P((2, 2), "b", atoms=3, nterms=1, names=("q1",))], {"dtype": dt}, tag="-dtype")
        add("multiply", [P((2,), "a", atoms=2), P((2,), "b", atoms=2)], {"dtype": dt}, tag="-dtype")
        add("sum", [P((2, 2), "a")], {"axis": 0, "keepdims": False, "dtype": dt}, tag="-dtype")
        add("prod", [P((3,), "a", atoms=3, nterms=1)], {"axis": 0, "keepdims": False, "dtype": dt}, tag="-dtype")
        add("cumsum", [P((3,), "a")], {"axis": 0, "dtype": dt}, tag="-dtype")
    for k in range(3):
        add("special", [], {"k": k}, tag="-values")
        cases[-1]["k"] = k
    add("det", [S.make_poly_spec("a", ("q0", "q1"), [[0, 0], [1, 0]], (2, 2, 2), rng, 8, zero_prob=0.1, literal_prob=0.2, mode="raw")], tag="-stack2x2")
    add("det", [S.make_poly_spec("a", ("q0",), [[0]], (2, 3, 3), rng, 12, zero_prob=0.2, literal_prob=0.2, mode="raw")], tag="-stack3x3")
    return cases


def main(argv=None) -> int:
    return H.simple_main(
        PROP, MOD, gen_cases,
        rule="one case = (function, axis/keepdims/n/prepend/append arguments, operand structures); non-trivial = >= 2 feasible paths",
        bounds={"shapes": "1-d..3-d, <= 8 elements", "axes": "all axes, all axis tuples, keepdims both", "diff_n": "1..2", "matrices": "1x1..3x3 (4x4 thorough), stacked (2,2,2),(2,3,3)",
                "outside": "dtype= arguments, out= arguments, float rounding of mean"},
        functions=["numpoly.sum", "cumsum", "mean", "prod", "diff", "ediff1d", "inner", "outer", "matmul", "det", "ndpoly.mean", "ndarray methods sum/prod/cumsum via __array_function__",
                   "numpy.add.reduce/accumulate, numpy.multiply.reduce via __array_ufunc__"],
        argv=argv,
    )


if __name__ == "__main__":
    sys.exit(main())
