"""C07 — comparison operators form one documented strict total order (E1 + S4)."""
from __future__ import annotations

import itertools
import operator
import random
import sys
from typing import Dict, List

import numpy

from .. import harness as H
from .. import model as M
from .. import structures as S
from ..common import check_invariants, snapshot_args, check_unmodified

PROP = "C07"
MOD = "nv.checks.c07"


def order_key(mono, names, graded: bool, reverse: bool):
    """The documented monomial order: (total degree if graded), then the exponent tuple read from the
    last indeterminate to the first (reverse-lexicographic; ``sort_reverse`` reads it first to last)."""
    d = dict(mono)
    e = tuple(d.get(n, 0) for n in names)
    return (sum(e) if graded else 0, e if reverse else tuple(reversed(e)))


def model_compare(a: M.MP, b: M.MP, names, graded, reverse) -> int:
    """-1 / 0 / +1 ; may fork (in symbolic mode) on coefficient differences the path has not decided."""
    monos = sorted(set(a.terms) | set(b.terms), key=lambda m: order_key(m, names, graded, reverse), reverse=True)
    for m in monos:
        d = a.coeff(m) - b.coeff(m)
        if bool(d != 0):
            return -1 if bool(d < 0) else 1
    return 0


def _flat(x):
    return list(numpy.asarray(x).reshape(-1))


def body(ctx: H.BaseCtx):
    import numpoly

    case = ctx.case
    # earlier comparisons in the same process (their results are not judged here): whatever they leave behind in module-level
    # tables must not change the comparison under test
    for pr in case.get("before", []):
        try:
            x, y = ctx.build(pr[0]), ctx.build(pr[1])
            {"lt": lambda: x < y, "max": lambda: numpoly.maximum(x, y), "proxy": lambda: numpoly.sortable_proxy(x), "str": lambda: str(x)}[case.get("prelude", "lt")]()
        except Exception:
            pass
    ops = [ctx.build(s) for s in case["operands"]]
    mops = [ctx.model(s) for s in case["operands"]]
    snap = snapshot_args(ops)
    opt = numpoly.get_options()
    graded, reverse = opt["sort_graded"], opt["sort_reverse"]
    names = sorted({n for s in case["operands"] if s.get("kind", "poly") == "poly" for n in s["names"]} | {"q0"}, key=lambda x: int(x[1:]))
    a, b = ops[0], ops[1]
    ma, mb = numpy.broadcast_arrays(mops[0], mops[1])
    res = {}
    try:
        res["lt"] = a < b
        res["le"] = a <= b
        res["gt"] = a > b
        res["ge"] = a >= b
        res["eq"] = a == b
        res["ne"] = a != b
        res["rgt"] = b > a
        res["np_lt"] = numpy.less(a, b)
        res["np_ge"] = numpy.greater_equal(a, b)
        mx = numpoly.maximum(a, b)
        mn = numpoly.minimum(a, b)
    except Exception as e:
        ctx.unexpected_exception(e, "comparison")
        check_unmodified(ctx, ops, snap)
        return
    shape = tuple(ma.shape)
    for k, v in res.items():
        if tuple(numpy.shape(v)) != shape:
            ctx.fail("shape", "%s has shape %s, expected %s" % (k, numpy.shape(v), shape))
            return
    fl = {k: [bool(x) for x in _flat(v)] for k, v in res.items()}
    ea, eb = M.flat_items(ma), M.flat_items(mb)
    verdicts = []
    for i in range(len(ea)):
        lt, eq, gt = fl["lt"][i], fl["eq"][i], fl["gt"][i]
        if [lt, eq, gt].count(True) != 1:
            ctx.fail("trichotomy", "element %d: (<,==,>) = (%s,%s,%s)" % (i, lt, eq, gt))
        if fl["le"][i] != (lt or eq) or fl["ge"][i] != (gt or eq) or fl["ne"][i] != (not eq):
            ctx.fail("complement", "element %d: <=,>=,!= = (%s,%s,%s) with (<,==,>) = (%s,%s,%s)" % (i, fl["le"][i], fl["ge"][i], fl["ne"][i], lt, eq, gt))
        if fl["rgt"][i] != lt:
            ctx.fail("antisymmetry", "element %d: a<b is %s but b>a is %s" % (i, lt, fl["rgt"][i]))
        if fl["np_lt"][i] != lt or fl["np_ge"][i] != fl["ge"][i]:
            ctx.fail("spelling", "element %d: numpy.less/greater_equal disagree with the operators" % i)
        want = model_compare(ea[i], eb[i], names, graded, reverse)
        got = -1 if lt else (1 if gt else 0)
        verdicts.append(want)
        if (eq and want != 0) or (lt and want != -1) or (gt and want != 1):
            ctx.fail("value", "element %d: operators say %s, documented order says %s" % (i, {-1: "<", 0: "==", 1: ">"}[got], {-1: "<", 0: "==", 1: ">"}[want]))
    # maximum / minimum return the larger / smaller operand
    exp_max = M.mp_array([eb[i] if verdicts[i] < 0 else ea[i] for i in range(len(ea))], shape)
    exp_min = M.mp_array([ea[i] if verdicts[i] < 0 else eb[i] for i in range(len(ea))], shape)
    ctx.expect_model(mx, exp_max, "maximum")
    ctx.expect_model(mn, exp_min, "minimum")
    check_invariants(ctx, mx, "maximum")
    # transitivity on triples
    if len(ops) == 3:
        c = ops[2]
        try:
            ab = [bool(x) for x in _flat(numpy.broadcast_arrays(a < b, numpy.ones(numpy.broadcast_shapes(shape, tuple(mops[2].shape)), dtype=bool))[0])]
            bc = [bool(x) for x in _flat(numpy.broadcast_arrays(b < c, numpy.ones(numpy.broadcast_shapes(shape, tuple(mops[2].shape)), dtype=bool))[0])]
            ac = [bool(x) for x in _flat(numpy.broadcast_arrays(a < c, numpy.ones(numpy.broadcast_shapes(shape, tuple(mops[2].shape)), dtype=bool))[0])]
        except Exception as e:
            ctx.unexpected_exception(e, "comparison (triple)")
            return
        for i in range(len(ab)):
            if ab[i] and bc[i] and not ac[i]:
                ctx.fail("transitivity", "element %d: a<b and b<c but not a<c" % i)
    check_unmodified(ctx, ops, snap)


def body_for(case):
    return body


def run_case(case: Dict) -> Dict:
    return H.simple_run_case(case, body, list(case["operands"]) + [s for pr in case.get("before", []) for s in pr])


def gen_cases(tier: str, seed: int) -> List[Dict]:
    rng = random.Random(7000 + seed)
    quick = tier == "quick"
    lim = H.limits(tier, quick=(3000, 50.0), thorough=(30000, 400.0))
    cases: List[Dict] = []
    n = 0
    settings = [{"sort_graded": g, "sort_reverse": r} for g in (True, False) for r in (False, True)]
    monosets = [
        (("q0",), [[0], [1], [2]]),
        (("q0", "q1"), [[0, 0], [1, 0], [0, 1]]),
        (("q0", "q1"), [[2, 0], [1, 1], [0, 2]]),
        (("q0", "q1"), [[1, 0], [0, 1], [1, 1], [0, 2], [2, 0]]),
        (("q0", "q1", "q2"), [[1, 0, 0], [0, 1, 0], [0, 0, 1], [0, 0, 0]]),
        (("q0", "q1", "q2"), [[1, 1, 0], [0, 1, 1], [1, 0, 1], [2, 0, 0], [0, 0, 2]]),
        (("q1", "q10"), [[1, 0], [0, 1], [2, 0], [0, 0]]),
    ]
    reps = 1 if quick else 4
    for _ in range(reps):
        for names, exps in monosets:
            for opt in settings:
                shape_pair = rng.choice([((), ()), ((2,), (2,)), ((1,), (2,)), ((2,), ()), ((), ())])
                if quick and len(exps) >= 5:
                    shape_pair = ((), ())  # 5 monomials x 2 elements x 6 operators exceeds the quick path budget
                # pick a sub-selection of monomials per operand (absent terms count as zero)
                ea = [e for e in exps if rng.random() < 0.8] or exps[:1]
                eb = [e for e in exps if rng.random() < 0.8] or exps[-1:]
                na = 2 if quick else 3
                a = S.make_poly_spec("a", names, ea, shape_pair[0], rng, na, mode="raw", zero_prob=0.1, literal_prob=0.2)
                b = S.make_poly_spec("b", names, eb, shape_pair[1], rng, na, mode="raw", zero_prob=0.1, literal_prob=0.2, share_from=S.spec_atoms(a) or None)
                n += 1
                mixed = len({sum(e) for e in exps}) > 1 and len(names) > 1  # graded and ungraded orders rank these monomials differently
                cases.append({"id": "%s-%03d-pair%s" % (PROP, n, "-mixeddeg" if mixed else ""), "op": "compare", "operands": [a, b], "options": opt, "limits": lim})
    # the same comparisons on unsigned coefficient dtypes (native fidelity runs / replays; the symbolic run is dtype-agnostic)
    for dt in ("uint8", "uint32", "uint16"):
        for names, exps in monosets[:3]:
            a = S.make_poly_spec("a", names, exps[:3], (2,), rng, 2, mode="raw", zero_prob=0.3, literal_prob=0.3)
            b = S.make_poly_spec("b", names, exps[:2], (2,), rng, 2, mode="raw", zero_prob=0.3, literal_prob=0.3)
            for sp in (a, b):
                sp["dtype"] = dt
                sp["unsigned"] = True
                sp["slots"] = [[abs(x) if not isinstance(x, str) else x for x in col] for col in sp["slots"]]
            n += 1
            cases.append({"id": "%s-%03d-pair-%s" % (PROP, n, dt), "op": "compare", "operands": [a, b], "options": rng.choice(settings), "limits": lim})
    # native dtype layer: integer dtype pairs (numpy compares mixed signed/unsigned integers exactly) with coefficients at the dtype
    # edges, differing in the last unit; any detour through float64 on the way to the comparison shows here
    pairs = [("uint64", "int64"), ("uint64", "uint64"), ("int64", "int64"), ("uint32", "int64"), ("uint8", "int8"), ("uint16", "int32"), ("int64", "uint64")]
    for d1, d2 in pairs if not quick else pairs[:3] + [rng.choice(pairs[3:])]:
        for names, exps in (monosets[1], monosets[2]):
            opt = rng.choice(settings)
            shape = rng.choice([(), (2,)])
            a = S.extreme_poly_spec(names, exps, shape, d1, rng, zero_prob=0.1)
            b = S.extreme_poly_spec(names, exps, shape, d2, rng, zero_prob=0.1)
            # make some leading coefficients agree up to the last unit so that the decision is taken there
            both = [v for v in S.dtype_extremes(d1) if v in S.dtype_extremes(d2) or 0 < v <= min(numpy.iinfo(d1).max, numpy.iinfo(d2).max)]
            big = max(both)
            for col_a, col_b in zip(a["slots"][1:], b["slots"][1:]):
                for i in range(len(col_a)):
                    col_a[i], col_b[i] = big, big
            a["slots"][0] = [big for _ in a["slots"][0]]
            b["slots"][0] = [big - 1 for _ in b["slots"][0]]
            n += 1
            cases.append({"id": "%s-%03d-pair-dtype-%s-%s" % (PROP, n, d1, d2), "op": "compare", "operands": [a, b], "options": opt, "limits": lim})
    # a narrow float polynomial against a number that the narrow type cannot hold exactly, carried as python float / 0-d array:
    # the order must be that of the exact values (float32(0.1) > 0.1), whatever the carrier of the number
    from fractions import Fraction as _F

    for dt in ("float32", "float16"):
        for val in (0.1, 1.0 / 3.0, 2.7):
            narrow = _F(float(numpy.dtype(dt).type(val)))
            for carrier in ("pyfloat", "array0d"):
                a = {"kind": "poly", "names": ["q0"], "exps": [[0]], "shape": [], "slots": [[S.lit(narrow)]], "mode": "raw", "dtype": dt}  # (decided at the constant term)
                b = {"kind": "scalar", "shape": [], "slots": [S.lit(_F(val))], "carrier": carrier}
                n += 1
                cases.append({"id": "%s-%03d-pair-narrowfloat" % (PROP, n), "op": "compare", "operands": [a, b] if n % 2 else [b, a], "options": rng.choice(settings), "limits": lim})
    # operands whose names are stored in non-index order (leaves of numpoly.symbols("q1 q0")): the documented order is by name
    for opt in settings:
        for names, exps in [(("q1", "q0"), [[1, 0], [0, 1], [0, 0]]), (("q2", "q0", "q1"), [[1, 0, 0], [0, 1, 0], [0, 0, 1]]), (("q10", "q2"), [[1, 0], [0, 1], [1, 1]])]:
            a = S.make_poly_spec("a", names, exps, (), rng, 2, mode="raw", zero_prob=0.1, literal_prob=0.3)
            b = S.make_poly_spec("b", names, exps, (), rng, 2, mode="raw", zero_prob=0.1, literal_prob=0.3)
            n += 1
            cases.append({"id": "%s-%03d-pair-unsortednames" % (PROP, n), "op": "compare", "operands": [a, b], "options": opt, "limits": lim})
    # call sequences: exponent tables that flatten to the same numbers but have different layouts (k terms in one indeterminate /
    # one term in k indeterminates), compared one right after the other
    def lit(names, exps, vals):
        return {"kind": "poly", "names": list(names), "exps": [list(e) for e in exps], "shape": [], "slots": [[v] for v in vals], "mode": "raw"}

    tables = [
        ((("q0", "q1"), [[0, 1]]), (("q0",), [[0], [1]])),
        ((("q0", "q1", "q2"), [[0, 1, 2]]), (("q0",), [[0], [1], [2]])),
        ((("q0", "q1"), [[0, 1], [2, 3]]), (("q0",), [[0], [1], [2], [3]])),
    ]
    # operands declaring many indeterminates (wide exponent rows) with few used
    for opt in settings[::2]:
        for nn, ua, ub in ((9, [0, 8], [1, 8]), (70, [1], [2]), (70, [0, 1, 2], [0, 1])):
            a = S.many_names_spec("a", nn, ua, (), rng, 2, maxexp=1)
            b = S.many_names_spec("b", nn, ub, (), rng, 2, maxexp=1)
            n += 1
            cases.append({"id": "%s-%03d-pair-manynames%d" % (PROP, n, nn), "op": "compare", "operands": [a, b], "options": opt, "limits": lim})
    # views (no data of their own) of operands storing the same terms, one of them with an all-zero term where the other is not zero
    for opt in settings[1::2]:
        for view in ("T", "rev", "cyc"):
            ex = [[0, 0], [1, 0], [0, 1]]
            a = S.make_poly_spec("a", ("q0", "q1"), ex, (2, 2), rng, 2, mode="raw", zero_prob=0.0, literal_prob=0.5)
            b = S.make_poly_spec("b", ("q0", "q1"), ex, (2, 2), rng, 2, mode="raw", zero_prob=0.0, literal_prob=0.5)
            for sp in (a, b):
                sp.pop("pre", None)
                order = sorted(range(3), key=lambda i: ex.index(sp["exps"][i]))
                sp["exps"] = [sp["exps"][i] for i in order]
                sp["slots"] = [sp["slots"][i] for i in order]
            a["slots"][1] = [0, 0, 0, 0]
            a["view"], b["view"] = view, view
            n += 1
            cases.append({"id": "%s-%03d-pair-views-zeroterm" % (PROP, n), "op": "compare", "operands": [a, b], "options": opt, "limits": lim})
    # literal pairs that graded and ungraded orders decide differently (q0**2 against q1; q0*q1 against q2): one path each
    for opt in settings:
        for nm, ea, eb in ((("q0", "q1"), [[2, 0]], [[0, 1]]), (("q0", "q1", "q2"), [[1, 1, 0], [0, 0, 0]], [[0, 0, 1]])):
            n += 1
            cases.append({"id": "%s-%03d-pair-mixeddeg-lit" % (PROP, n), "op": "compare", "operands": [lit(nm, ea, [2] * len(ea)), lit(nm, eb, [3] * len(eb))], "options": opt, "limits": lim})
    for opt in settings if not quick else settings[::3] + settings[1:2]:
        for (n1, e1), (n2, e2) in tables:
            wide = (lit(n1, e1, [2] * len(e1)), lit(n1, e1, [3] * len(e1)))
            tall = (S.make_poly_spec("a", n2, e2, (), rng, 2, mode="raw", zero_prob=0.0, literal_prob=0.5), S.make_poly_spec("b", n2, e2, (), rng, 2, mode="raw", zero_prob=0.0, literal_prob=0.5))
            for first, second in ((wide, tall), (tall, wide)):
                n += 1
                cases.append({"id": "%s-%03d-pair-sequence" % (PROP, n), "op": "compare", "operands": list(second), "before": [list(first)], "prelude": ["lt", "max", "proxy", "str"][n % 4],
                              "options": opt, "limits": lim})
    # constants order as numbers; poly vs number
    for opt in settings[:2]:
        a = S.make_poly_spec("a", ("q0",), [[0]], (2,), rng, 2, mode="raw")
        b = S.make_numeric_spec("b", "array", (2,), rng, 2)
        n += 1
        cases.append({"id": "%s-%03d-const" % (PROP, n), "op": "compare", "operands": [a, b], "options": opt, "limits": lim})
        a = S.make_poly_spec("a", ("q0", "q1"), [[0, 0], [1, 0], [0, 1]], (), rng, 3, mode="raw")
        b = S.make_numeric_spec("b", "scalar", (), rng, 1)
        n += 1
        cases.append({"id": "%s-%03d-vsnum" % (PROP, n), "op": "compare", "operands": [a, b], "options": opt, "limits": lim})
    # triples (transitivity): 3 terms x 3 polynomials
    for opt in settings:
        for names, exps in monosets[1:3] + ([] if quick else monosets[3:6]):
            sub = exps[:3]
            # quick: 4 atoms over the three polynomials (the path count is roughly 3^atoms per compared pair)
            budgets = (2, 1, 1) if quick else (3, 2, 2)
            ops_ = [S.make_poly_spec(p, names, sub, (), rng, b, mode="raw", zero_prob=0.1, literal_prob=0.3) for p, b in zip("abc", budgets)]
            n += 1
            cases.append({"id": "%s-%03d-triple" % (PROP, n), "op": "compare3", "operands": ops_, "options": opt, "limits": lim})
    return cases


def main(argv=None) -> int:
    return H.simple_main(
        PROP, MOD, gen_cases,
        rule="one case = (monomial set, operand structures, sort option setting); non-trivial = >= 2 feasible paths",
        bounds={"monomials": "<= 5 over <= 3 indeterminates incl. many of equal degree", "shapes": "(), (2,), (1,)x(2,)", "sort_settings": 4,
                "triples": "3 terms x 3 polynomials", "outside": "complex coefficients, NaN"},
        functions=["numpoly.less", "numpoly.less_equal", "numpoly.greater", "numpoly.greater_equal", "numpoly.equal", "numpoly.not_equal",
                   "numpoly.maximum", "numpoly.minimum", "numpoly.glexsort", "numpoly.where", "numpoly.align_polynomials"],
        argv=argv,
    )


if __name__ == "__main__":
    sys.exit(main())
