"""C14 — global options are scoped, restored on every exit path, updated atomically (E3: CrossHair).

numpoly/option.py is executed symbolically, unmodified, by CrossHair (z3 underneath): op codes and
payloads of a bounded call history, the prior option state, option values and the unknown option name
are symbolic.  Verdict per condition = CrossHair's ``--report_all`` line; only "Confirmed over all
paths" counts as held.  Every counterexample is replayed in a plain interpreter before it is reported."""
from __future__ import annotations

import ast
import concurrent.futures as cf
import json
import os
import re
import shutil
import subprocess
import sys
import tempfile
import time
from typing import Dict, List, Tuple

from .. import harness as H

PROP = "C14"
MOD = "nv.checks.c14"
TMPL = os.path.join(os.path.dirname(os.path.dirname(os.path.abspath(__file__))), "ch_option_tmpl.py")
OPTION_PY = os.environ.get("NV_REPO", "/repo") + "/numpoly/option.py"


def key_uniformity_guard() -> Tuple[bool, List[str]]:
    """No function body in option.py may mention a specific option name (then two keys stand for all)."""
    src = open(OPTION_PY).read()
    tree = ast.parse(src)
    keys: List[str] = []
    for node in tree.body:
        if isinstance(node, ast.Assign) and any(isinstance(t, ast.Name) and t.id == "GLOBAL_OPTIONS_DEFAULTS" for t in node.targets):
            keys = list(ast.literal_eval(node.value))
    bad = []
    for node in ast.walk(tree):
        if isinstance(node, (ast.FunctionDef, ast.AsyncFunctionDef)):
            for sub in ast.walk(node):
                if isinstance(sub, ast.Constant) and isinstance(sub.value, str) and sub.value in keys:
                    if not (isinstance(node.body[0], ast.Expr) and sub is getattr(node.body[0], "value", None)):
                        bad.append("%s mentions %r" % (node.name, sub.value))
    return (not bad and bool(keys)), bad


def func_lines(path: str) -> Dict[str, int]:
    tree = ast.parse(open(path).read())
    return {n.name: n.body[0].lineno for n in tree.body if isinstance(n, ast.FunctionDef)}


def make_harness(workdir: str, first_op: int) -> str:
    src = open(TMPL).read().replace("FIRST_OP = -1", "FIRST_OP = %d" % first_op).replace('OPTION_PY = "/repo/numpoly/option.py"', "OPTION_PY = %r" % OPTION_PY)
    path = os.path.join(workdir, "ch_option_%s.py" % ("all" if first_op < 0 else first_op))
    with open(path, "w") as f:
        f.write(src)
    return path


def run_condition(job) -> Dict:
    path, fname, line, timeout = job
    t0 = time.time()
    cmd = [sys.executable, "-m", "crosshair", "check", "--report_all", "--per_condition_timeout", str(timeout), "%s:%d" % (path, line)]
    try:
        r = subprocess.run(cmd, capture_output=True, text=True, timeout=timeout * 2 + 120, cwd=os.path.dirname(path))
        out = (r.stdout + r.stderr).strip()
    except subprocess.TimeoutExpired:
        out = "info: Not confirmed. (wall-clock limit)"
    verdict = "inconclusive"
    cex = None
    if "Confirmed over all paths" in out:
        verdict = "confirmed"
    elif "error:" in out:
        verdict = "refuted"
        m = re.search(r"when calling (\w+)\((.*)\)(?: \(which|$)", out.replace("\n", " "))
        if m:
            cex = {"function": m.group(1), "args": m.group(2)}
    elif "Unable to meet precondition" in out:
        verdict = "unreachable"
    return {"file": os.path.basename(path), "function": fname, "verdict": verdict, "cex": cex, "output": out[-400:], "wall_s": round(time.time() - t0, 1)}


def replay_cex(path: str, cex: Dict) -> Tuple[bool, str]:
    """Run the reported call concretely in a plain interpreter: does the harness really return False / raise?"""
    code = "import sys; sys.path.insert(0, %r); import %s as h; r = h.%s(%s); print('RESULT', r); sys.exit(0 if r else 1)" % (
        os.path.dirname(path),
        os.path.splitext(os.path.basename(path))[0],
        cex["function"],
        cex["args"],
    )
    r = subprocess.run([sys.executable, "-c", code], capture_output=True, text=True, timeout=120)
    return r.returncode != 0, (r.stdout + r.stderr)[-400:]


def replay_case(case, values, rec):
    # subprocess replay entry (nv.replay): re-run the concrete call recorded in the case
    workdir = tempfile.mkdtemp(prefix="c14r_")
    try:
        path = make_harness(workdir, case.get("first_op", -1))
        bad, out = replay_cex(path, case["cex"])
        return [H.Issue(rec.get("kind", "history"), case.get("op", "history"), out)] if bad else []
    finally:
        shutil.rmtree(workdir, ignore_errors=True)


def main(argv=None) -> int:
    args = H.std_args(argv)
    t0 = time.time()
    quick = args.tier == "quick"
    workdir = tempfile.mkdtemp(prefix="c14_", dir=os.environ.get("TMPDIR", "/tmp"))
    try:
        uniform, bad = key_uniformity_guard()
        jobs = []
        base = make_harness(workdir, -1)
        lines = func_lines(base)
        # histories: spread over processes by first op
        depths = [3] if quick else [3, 4, 5]
        per = {3: 120, 4: 600, 5: 1500}
        for L in depths:
            for op in range(8):
                p = make_harness(workdir, op)
                jobs.append((p, "check_history%d" % L, func_lines(p)["check_history%d" % L], per[L] if not quick else 100))
        jobs.append((base, "twin_history3", lines["twin_history3"], 30))
        jobs.append((base, "check_block_values", lines["check_block_values"], 60))
        jobs.append((base, "twin_block_values", lines["twin_block_values"], 30))
        jobs.append((base, "check_unknown_name", lines["check_unknown_name"], 90 if quick else 600))
        jobs.append((base, "twin_unknown_name", lines["twin_unknown_name"], 30))
        jobs.append((base, "check_near_miss_names", lines["check_near_miss_names"], 60))
        jobs.append((base, "check_equal_distinct", lines["check_equal_distinct"], 90))
        jobs.append((base, "twin_equal_distinct", lines["twin_equal_distinct"], 30))
        jobs.append((base, "check_yielded", lines["check_yielded"], 90))
        jobs.append((base, "twin_yielded", lines["twin_yielded"], 30))
        jobs.append((base, "check_decorated", lines["check_decorated"], 90))
        jobs.append((base, "twin_decorated", lines["twin_decorated"], 30))
        jobs.append((base, "check_unknown_value", lines["check_unknown_value"], 90))
        jobs.append((base, "twin_unknown_value", lines["twin_unknown_value"], 30))
        with cf.ThreadPoolExecutor(max_workers=args.workers) as ex:
            results = list(ex.map(run_condition, jobs))
        violations = []
        inconclusive = []
        confirmed = 0
        twins_ok = 0
        replays = 0
        for job, r in zip(jobs, results):
            twin = r["function"].startswith("twin_")
            if twin:
                if r["verdict"] == "refuted":
                    twins_ok += 1
                else:
                    inconclusive.append({"function": r["function"], "reason": "reachability twin not refuted: " + r["verdict"]})
                continue
            if r["verdict"] == "confirmed":
                confirmed += 1
            elif r["verdict"] == "refuted" and r["cex"]:
                replays += 1
                bad_, out = replay_cex(job[0], r["cex"])
                if bad_:
                    m = re.search(r"_(\d|all)\.py$", job[0])
                    first_op = -1 if not m or m.group(1) == "all" else int(m.group(1))
                    violations.append(
                        {
                            "kind": "history",
                            "op": r["function"],
                            "detail": "%s(%s) is False: option state diverges from the stack model / KeyError contract broken" % (r["cex"]["function"], r["cex"]["args"]),
                            "signature": "c14|" + r["function"],
                            "values": {},
                            "case": {"id": r["function"], "op": r["function"], "first_op": first_op, "cex": r["cex"]},
                            "preconfirmed": True,
                        }
                    )
                else:
                    inconclusive.append({"function": r["function"], "reason": "counterexample did not replay: " + out[-200:]})
            else:
                inconclusive.append({"function": r["function"], "file": r["file"], "reason": r["verdict"] + ": " + r["output"][-160:]})
        if not uniform:
            inconclusive.append({"function": "key-uniformity guard", "reason": "option.py mentions specific option names: %s" % bad})
        reports = [
            {
                "case": {"id": "%s@%s" % (r["function"], r["file"]), "op": r["function"]},
                "paths": 1,
                "exhausted": r["verdict"] in ("confirmed",) or r["function"].startswith("twin_"),
                "nontrivial": True,
                "fidelity_runs": 0,
                "wall_s": r["wall_s"],
                "path_log": [{"verdict": r["verdict"], "output": r["output"][-200:]}],
            }
            for r in results
        ]
        return H.finish(
            PROP,
            MOD,
            args.tier,
            args.seed,
            reports,
            t0,
            level="model_checking",
            rule="one case = one CrossHair condition (harness function x fixed first operation); each is a symbolic exploration of all "
            "op-code/payload/prior-state values of a bounded call history; non-trivial = every condition (each quantifies over >= 7^2 histories)",
            bounds={
                "history_depth": depths,
                "operation_kinds": 8,
                "option_keys": "retain_names, sort_graded (+display_multiply/default_varname/display_exponent/sort_reverse in the block harness); key-uniformity guard: %s" % uniform,
                "unknown_name": "symbolic str, len <= 4 (inconclusive unless CrossHair confirms; near-miss names are concrete)",
                "outside": "histories longer than the depth; option values other than bool/int/str(len<=3)",
            },
            assumptions=[
                "CrossHair's symbolic models of dict / str / contextlib.contextmanager",
                "option.py is executed afresh per call from its source text (no numpy, nothing realised)",
                "shipped defaults = the literal dict in option.py's source",
            ],
            functions=["numpoly.option.get_options", "numpoly.option.set_options", "numpoly.option.global_options"],
            extra_coverage={
                "conditions": len(jobs),
                "confirmed_over_all_paths": confirmed,
                "reachability_twins_refuted": twins_ok,
                "crosshair_inconclusive": inconclusive,
                "cases_inconclusive": len(inconclusive),
                "counterexamples_replayed": replays,
                "obligations": len([j for j in jobs if not j[1].startswith("twin_")]),
                "discharged": confirmed,
            },
            extra_violations=violations,
        )
    finally:
        shutil.rmtree(workdir, ignore_errors=True)


if __name__ == "__main__":
    sys.exit(main())
