"""C04 — alignment changes representation only (E1)."""
from __future__ import annotations

import random
import sys
import time
from typing import Dict, List

import numpy

from .. import harness as H
from .. import model as M
from .. import structures as S
from ..common import check_invariants, snapshot_args, check_unmodified

PROP = "C04"
MOD = "nv.checks.c04"
FUNCS = ["align_polynomials", "align_shape", "align_indeterminants", "align_exponents"]


def expected_names(name_sets) -> tuple:
    names = sorted({n for ns in name_sets for n in ns}, key=lambda x: int(x[1:] or "0"))
    return tuple(names)


def body_special(ctx: H.BaseCtx):
    """Native only: complex / tiny-imaginary / signed-zero / non-finite coefficient content.  Alignment performs no arithmetic:
    every output must hold, term by term, exactly the (broadcast) coefficient arrays of its input; terms it adds must be zero."""
    import numpoly
    from .. import special as SP

    if ctx.symbolic:
        return
    q0, q1, q2 = numpoly.variable(3)
    for label, p in SP.zoo((2,)):
        for pname, partner in (("2x1 real polynomial", numpoly.polynomial([[q2], [2 * q0 + 1]])), ("python int", 3), ("(2,) float array", numpy.array([0.5, -1.0]))):
            for fn in FUNCS:
                try:
                    outs = getattr(numpoly, fn)(SP.zoo((2,), only=label)[0][1], partner)
                except Exception as e:
                    ctx.unexpected_exception(e, "%s on %s" % (fn, label))
                    continue
                o = outs[0]
                shape = numpy.broadcast_shapes(p.shape, getattr(partner, "shape", ())) if fn in ("align_polynomials", "align_shape") else p.shape
                pad = len(o.names) - len(p.names)
                with numpy.errstate(all="ignore"):
                    want = {}
                    for m, c in SP.terms(p).items():
                        key = [0] * len(o.names)
                        for nm, e in zip(p.names, m):
                            key[list(o.names).index(nm)] = e
                        want[tuple(key)] = numpy.broadcast_to(c, shape)
                SP.expect_terms(ctx, o, want, "%s(%s, %s)[0]" % (fn, label, pname))


def body(ctx: H.BaseCtx):
    import numpoly

    case = ctx.case
    if case.get("op") == "special":
        return body_special(ctx)
    fn = getattr(numpoly, case["fn"])
    ops = [ctx.build(s) for s in case["operands"]]
    mops = [ctx.model(s) for s in case["operands"]]
    snap = snapshot_args(ops)
    try:
        if case.get("aslist"):
            # polynomial-likes: (nested) lists of the operand's element polynomials -- no argument is an ndpoly itself
            nest = lambda p: [nest(x) for x in p] if isinstance(p, numpoly.ndpoly) and p.ndim else p
            outs = fn(*[nest(o) if isinstance(o, numpoly.ndpoly) and o.ndim else o for o in ops])
        else:
            outs = fn(*ops)
    except Exception as e:
        ctx.unexpected_exception(e, case["fn"])
        check_unmodified(ctx, ops, snap)
        return
    if not isinstance(outs, tuple) or len(outs) != len(ops):
        ctx.fail("type", "%s returned %s of length %s" % (case["fn"], type(outs).__name__, len(outs) if hasattr(outs, "__len__") else "?"))
        return
    aligns_shape = case["fn"] in ("align_polynomials", "align_shape")
    aligns_names = case["fn"] in ("align_polynomials", "align_indeterminants", "align_exponents")
    aligns_exps = case["fn"] in ("align_polynomials", "align_exponents")
    bshape = numpy.broadcast_shapes(*[tuple(m.shape) for m in mops])
    for i, (o, m) in enumerate(zip(outs, mops)):
        if not isinstance(o, numpoly.ndpoly):
            ctx.fail("type", "output %d is %s" % (i, type(o).__name__))
            continue
        exp = numpy.broadcast_to(m, bshape) if aligns_shape else m
        # dtype-edge cases hold exactly representable literals only: no tolerance (alignment performs no arithmetic)
        ctx.expect_model(o, exp, "output %d" % i, rtol=0 if case.get("exact") else None)
        check_invariants(ctx, o, "output %d" % i)
    polys = [o for o in outs if isinstance(o, numpoly.ndpoly)]
    if len(polys) == len(outs):
        if aligns_shape and len({tuple(o.shape) for o in outs}) != 1:
            ctx.fail("align", "shapes differ after %s: %s" % (case["fn"], [tuple(o.shape) for o in outs]))
        # a number / array operand becomes a constant polynomial over the default indeterminate q0
        in_names = [tuple(s["names"]) if s.get("kind", "poly") == "poly" else ("q0",) for s in case["operands"]]
        if aligns_names:
            want = expected_names(in_names) if in_names else None
            accept = {want}
            if len(set(in_names)) == 1:
                accept.add(in_names[0])  # already sharing one name tuple (in whatever order): "aligning changes nothing" is acceptable too
            got = {tuple(o.names) for o in outs}
            if len(got) != 1:
                ctx.fail("align", "names differ after %s: %s" % (case["fn"], sorted(got)))
            elif want and (case.get("aslist") or not (case.get("options") or {}).get("retain_names", True)):
                # under the global retain_names=False the shape step may already have dropped names no operand uses (the documented
                # effect of that option, C15): the common tuple must then be an index-ordered part of the union
                g = sorted(got)[0]
                if g not in accept and [x for x in want if x in g] != list(g):
                    ctx.fail("align", "names %s are not an index-ordered part of the union %s" % (g, want))
            elif want and not got <= accept:
                ctx.fail("align", "names %s, expected union in index order %s" % (sorted(got)[0], want))
        if aligns_exps:
            e0 = outs[0].exponents.tolist()
            k0 = [str(k) for k in outs[0].keys]
            for o in outs[1:]:
                if o.exponents.tolist() != e0 or [str(k) for k in o.keys] != k0:
                    ctx.fail("align", "exponent rows / keys differ after %s" % case["fn"])
                    break
        # idempotence: aligning the aligned outputs returns the same representation
        try:
            again = fn(*outs)
            for i, (a, o) in enumerate(zip(again, outs)):
                if tuple(a.names) != tuple(o.names) or a.exponents.tolist() != o.exponents.tolist() or tuple(a.shape) != tuple(o.shape):
                    ctx.fail("align", "second %s changed representation of output %d" % (case["fn"], i))
                ctx.expect_model(a, M.to_model(o), "re-aligned output %d" % i)
        except Exception as e:
            ctx.unexpected_exception(e, case["fn"] + " (idempotence)")
    check_unmodified(ctx, ops, snap)


def body_for(case):
    return body


def run_case(case: Dict) -> Dict:
    atoms: List[str] = []
    for s in case["operands"]:
        for a in S.spec_atoms(s):
            if a not in atoms:
                atoms.append(a)
    lim = case.get("limits", {})
    return H.explore_case(case, body, atoms, max_paths=lim.get("max_paths", 2000), time_budget=lim.get("time", 60.0), options=case.get("options"))


def gen_cases(tier: str, seed: int) -> List[Dict]:
    rng = random.Random(4000 + seed)
    quick = tier == "quick"
    lim = {"max_paths": 2000 if quick else 20000, "time": 45.0 if quick else 300.0}
    cases: List[Dict] = []
    shape_tuples = [
        [()],
        [(), ()],
        [(), (), ()],
        [(2,)],
        [(), (2,)],
        [(2,), (2,)],
        [(2, 1), (1, 2)],
        [(1,), (3,), ()],
        [(2, 2), (2,), ()],
        [(2, 1, 2), (2,), (1, 2)],
        [(2,), (1, 2), (2, 1, 1), ()],
        [(1, 2, 2), (2, 2)],
        # arrays without elements keep their (broadcast) shape through every aligner
        [(0,), ()],
        [(2, 0), (1,), ()],
        [(0,), (0,)],
        [(1, 0), (2, 1)],
    ]
    name_choices = [("q0",), ("q1",), ("q0", "q1"), ("q0", "q2"), ("q2", "q10"), ("q10",), ("q1", "q2", "q10"), ("q3", "q12"), ("q1", "q0"), ("q10", "q2"), ("q2", "q0", "q1")]
    n = 0
    reps = 8 if quick else 700
    for _ in range(reps):
        for shapes in shape_tuples:
            for fn in FUNCS:
                if fn in ("align_indeterminants", "align_exponents") and False:
                    continue
                operands = []
                budget = 6 if quick else 10
                per = max(1, budget // len(shapes))
                for i, sh in enumerate(shapes):
                    r = rng.random()
                    if r < 0.7 or i == 0:
                        names = rng.choice(name_choices)
                        exps = S.exps_for(len(names), 2, rng, rng.choice([1, 2, 3]), include_const=rng.random() < 0.4)
                        operands.append(S.make_poly_spec("abcd"[i], names, exps, sh, rng, per, mode=rng.choice(["raw", "clean"])))
                    elif r < 0.85:
                        operands.append(S.make_numeric_spec("abcd"[i], "array", sh, rng, per) if sh else S.make_numeric_spec("abcd"[i], "scalar", (), rng, 1))
                    else:
                        operands.append(S.make_numeric_spec("abcd"[i], "scalar", (), rng, 1))
                # the non-shape aligners keep each operand's own shape: any shapes are fine
                n += 1
                # alignment passes its retain flags explicitly, so the global retain options must not change what it returns
                opt = rng.choice([{}, {}, {"retain_names": False}, {"retain_coefficients": True}, {"retain_names": False, "retain_coefficients": True}])
                if not opt.get("retain_names", True):
                    # a cleaned input would itself lose its unused names under this setting: build raw
                    operands = [dict(o, mode="raw") if o.get("kind", "poly") == "poly" else o for o in operands]
                cases.append({"id": "%s-%03d-%s" % (PROP, n, fn), "op": fn, "fn": fn, "operands": operands, "options": opt, "limits": lim})
    # native dtype layer ("arbitrary dtypes"): literal coefficients at the edges of each dtype; alignment must hand every value back
    # exactly, whatever it has to broadcast / widen.  (Symbolically these are ordinary exact numbers.)
    dts = ["uint64", "int64", "uint32", "int32", "uint16", "int16", "uint8", "int8", "bool", "float32", "float16", "float64", ">i8", ">f8", ">u4", ">i2", ">f4"]
    for dt in dts if not quick else rng.sample(dts[2:12], 3) + ["uint64", "int64"] + rng.sample(dts[12:], 2):
        for fn in FUNCS:
            # shapes under which *every* operand has to be broadcast by the shape-aligning functions
            a = S.extreme_poly_spec(("q0", "q2"), [[0, 0], [1, 0], [0, 2]], (1, 2), dt, rng)
            b = S.extreme_poly_spec(("q1",), [[0], [3]], (2, 1), dt, rng)
            c = {"kind": "array", "shape": [2], "slots": [rng.choice(S.dtype_extremes(dt)) for _ in range(2)], "dtype": dt}
            n += 1
            cases.append({"id": "%s-%03d-%s-dtype-%s" % (PROP, n, fn, dt), "op": fn, "fn": fn, "operands": [a, b] + ([c] if rng.random() < 0.5 else []), "exact": True, "limits": lim})
    # plain python numbers next to 0-d polynomials: nothing has to be broadcast, so an aligner may hand back the very object
    # it converted the number into (which must then be the caller's own, not shared with later conversions of the same number)
    for fn in FUNCS:
        for lits in ([2, 3], [2], [0, 1, 2]):
            ops_ = [{"kind": "scalar", "shape": [], "slots": [v]} for v in lits] + [S.make_poly_spec("a", ("q0",), [[0], [1]], (), rng, 2, mode="raw")]
            n += 1
            cases.append({"id": "%s-%03d-%s-pynum" % (PROP, n, fn), "op": fn, "fn": fn, "operands": ops_, "limits": lim})
    # lists of polynomials (and numbers) as arguments: polynomial-likes none of which is an ndpoly
    for fn in FUNCS:
        for k in range(2 if quick else 6):
            a = S.make_poly_spec("a", ("q0", "q1"), [[1, 0], [0, 1]] if k % 2 == 0 else [[0, 0], [2, 1]], (2,), rng, 2, mode="raw")
            partner = [{"kind": "scalar", "shape": [], "slots": [3]}, {"kind": "array", "shape": [2], "slots": [1, 2]},
                       S.make_poly_spec("b", ("q2",), [[0], [1]], rng.choice([(2,), (1, 2)]), rng, 2, mode="raw")][k % 3]
            for sp in (a, partner):
                sp.pop("pre", None), sp.pop("view", None)
            n += 1
            cases.append({"id": "%s-%03d-%s-aslist" % (PROP, n, fn), "op": fn, "fn": fn, "operands": [a, partner], "aslist": True, "limits": lim})
    # operands that declare many indeterminates and use few (wide exponent rows), alone and against narrow ones
    for fn in FUNCS:
        for nn, ua, ub in ((9, [0, 8], [1, 8]), (70, [0, 5], [1, 69]), (33, [0, 32], [32])):
            a = S.many_names_spec("a", nn, ua, rng.choice([(), (2,)]), rng, 2, maxexp=3)
            b = S.many_names_spec("b", nn, ub, (), rng, 2, maxexp=255)
            c_ = S.make_poly_spec("c", ("q1",), [[0], [2]], (), rng, 1, mode="raw")
            n += 1
            cases.append({"id": "%s-%03d-%s-manynames%d" % (PROP, n, fn, nn), "op": fn, "fn": fn, "operands": [a, b, c_], "limits": lim})
    cases.append({"id": "%s-%03d-special-content" % (PROP, n + 1), "op": "special", "fn": "special", "operands": [], "limits": lim})
    n += 1
    # already aligned arguments (internal aliasing possible)
    for fn in FUNCS:
        names = ("q0", "q1")
        exps = [[0, 0], [1, 0], [0, 2]]
        a = S.make_poly_spec("a", names, exps, (2,), rng, 3, mode="raw", zero_prob=0.3)
        b = S.make_poly_spec("b", names, exps, (2,), rng, 3, mode="raw", zero_prob=0.3)
        n += 1
        cases.append({"id": "%s-%03d-%s-aligned" % (PROP, n, fn), "op": fn, "fn": fn, "operands": [a, b], "limits": lim})
    return cases


def main(argv=None) -> int:
    args = H.std_args(argv)
    t0 = time.time()
    cases = gen_cases(args.tier, args.seed)
    reports = H.run_cases(MOD, cases, args)
    from .. import stubs

    return H.finish(
        PROP, MOD, args.tier, args.seed, reports, t0,
        level="model_checking",
        rule="one case = (alignment function, tuple of 1-4 operand structures); non-trivial = >= 2 feasible paths; distinct = distinct descriptors",
        bounds={"operands": "1-4", "shapes": "0-d..3-d broadcastable tuples", "terms": "<= 3", "atoms_per_case": "<= 6 quick / 10 thorough",
                "outside": "coefficient dtype alignment (object carrier)"},
        assumptions=stubs.stub_list(),
        functions=["numpoly.align_polynomials", "numpoly.align_shape", "numpoly.align_indeterminants", "numpoly.align_exponents", "numpoly.aspolynomial"],
    )


if __name__ == "__main__":
    sys.exit(main())
