"""C16 — str/repr denote exactly the polynomial (E1 + S5).

``str(Sym)`` is a stub (S5): "-"+token(-x) if x < 0 else token(x) (forks on the sign); number formatting itself is
trusted.  An independent recursive-descent reader evaluates the produced text over the exact model."""
from __future__ import annotations

import itertools
import random
import re
import sys
from fractions import Fraction
from typing import Dict, List, Tuple

import numpy

from .. import harness as H
from .. import model as M
from .. import structures as S
from ..common import snapshot_args, check_unmodified
from ..engine import ENGINE, Sym
from .c07 import order_key

PROP = "C16"
MOD = "nv.checks.c16"


# ----------------------------------------------------------------------------- S5: tokens
def _str_hook(s: Sym) -> str:
    if s.is_const():
        v = s.const_value()
        return str(int(v)) if v.denominator == 1 else repr(float(v))
    toks = ENGINE.path_cache.setdefault("tokens", [])
    if ENGINE.decide(s.z3() < 0, tainted=s.tainted):
        toks.append(-s)
        return "-T%d" % (len(toks) - 1)
    toks.append(s)
    return "T%d" % (len(toks) - 1)


# ----------------------------------------------------------------------------- the reader
class ParseError(Exception):
    pass


NUM = r"(?:\d+\.\d*(?:[eE][-+]?\d+)?|\d+(?:[eE][-+]?\d+)?|\.\d+(?:[eE][-+]?\d+)?)"


def parse_scalar(text: str, mul: str, exp: str, tokens: List[Sym]) -> Tuple[M.MP, List[Tuple]]:
    """Read one polynomial; returns (value, list of monomials in printed order)."""
    pos = 0
    n = len(text)
    total = M.MP()
    order: List[Tuple] = []
    if not text:
        raise ParseError("empty text")
    first = True
    while pos < n:
        sign = 1
        if text[pos] == "+":
            if first:
                raise ParseError("leading +")
            pos += 1
        elif text[pos] == "-":
            sign = -1
            pos += 1
        elif not first:
            raise ParseError("missing sign at %d in %r" % (pos, text))
        first = False
        coeff = None
        mono: Dict[str, int] = {}
        # factors
        nf = 0
        while True:
            m = re.compile(r"T(\d+)").match(text, pos)
            if m:
                if coeff is not None or mono:
                    raise ParseError("coefficient not first in term: %r" % text)
                coeff = tokens[int(m.group(1))]
                pos = m.end()
            else:
                m = re.compile(NUM).match(text, pos)
                if m:
                    if coeff is not None or mono:
                        raise ParseError("number not first in term: %r" % text)
                    t = m.group(0)
                    coeff = Sym.const(Fraction(int(t)) if re.fullmatch(r"\d+", t) else Fraction(float(t)))
                    pos = m.end()
                else:
                    m = re.compile(r"[A-Za-z_]\w*?\d+|[A-Za-z_]+").match(text, pos)
                    if not m:
                        raise ParseError("unexpected %r at %d in %r" % (text[pos : pos + 5], pos, text))
                    name = m.group(0)
                    pos = m.end()
                    p = 1
                    if text.startswith(exp, pos):
                        m2 = re.compile(r"\d+").match(text, pos + len(exp))
                        if not m2:
                            raise ParseError("exponent expected in %r" % text)
                        p = int(m2.group(0))
                        pos = m2.end()
                    if name in mono:
                        raise ParseError("indeterminate twice in a term: %r" % text)
                    mono[name] = p
            nf += 1
            if mul and text.startswith(mul, pos):
                pos += len(mul)
                continue
            break
        c = coeff if coeff is not None else Sym.const(1)
        key = tuple(sorted(((k, v) for k, v in mono.items() if v), key=lambda t: M._name_key(t[0])))
        total = total + M.MP({key: c * sign})
        order.append(key)
    return total, order


def parse_nested(text: str, sep: str):
    """'[a b]' / '[[a, b],\n [c, d]]' -> nested python lists of element strings."""
    text = text.strip()
    if not text.startswith("["):
        return text
    items = []
    depth = 0
    cur = ""
    inner = text[1:-1]
    if not text.endswith("]"):
        raise ParseError("unbalanced brackets")
    i = 0
    parts: List[str] = []
    while i < len(inner):
        ch = inner[i]
        if ch == "[":
            depth += 1
            cur += ch
        elif ch == "]":
            depth -= 1
            cur += ch
        elif depth == 0 and (ch in " \n" or (sep.strip() and inner.startswith(sep.strip(), i))):
            if cur.strip():
                parts.append(cur.strip())
            cur = ""
            if sep.strip() and inner.startswith(sep.strip(), i):
                i += len(sep.strip()) - 1
        else:
            cur += ch
        i += 1
    if cur.strip():
        parts.append(cur.strip())
    return [parse_nested(p, sep) for p in parts]


def _shape_of(nested):
    if isinstance(nested, list):
        if not nested:
            return (0,)
        return (len(nested),) + _shape_of(nested[0])
    return ()


def _flatten(nested):
    if isinstance(nested, list):
        out = []
        for x in nested:
            out.extend(_flatten(x))
        return out
    return [nested]


def _sympy_hook(s: Sym) -> str:
    """S5 for to_sympy (which evals the text): the token is a python expression that evaluates to a sympy symbol."""
    if s.is_const():
        v = s.const_value()
        return str(int(v)) if v.denominator == 1 else repr(float(v))
    toks = ENGINE.path_cache.setdefault("tokens", [])
    neg = ENGINE.decide(s.z3() < 0, tainted=s.tainted)
    toks.append(-s if neg else s)
    return "%s__import__('sympy').Symbol('T%d')" % ("-" if neg else "", len(toks) - 1)


def body_sympy(ctx: H.BaseCtx):
    """to_sympy(p) denotes p (0-d polynomials, default display options)."""
    import numpoly
    import sympy

    case = ctx.case
    spec = case["poly"]
    old_hook = ENGINE.str_hook
    if ctx.symbolic:
        ENGINE.str_hook = _sympy_hook
    try:
        p = ctx.build(spec)
        mp = ctx.model(spec)
        names = list(spec["names"])
        try:
            expr = numpoly.to_sympy(p)
        except Exception as e:
            ctx.unexpected_exception(e, "to_sympy")
            return
        tokens = ENGINE.path_cache.get("tokens", []) if ctx.symbolic else []
        qs = [sympy.Symbol(n) for n in names]
        ts = [sympy.Symbol("T%d" % i) for i in range(len(tokens))]
        try:
            poly = sympy.Poly(sympy.sympify(expr), *qs)
        except Exception as e:
            ctx.fail("format", "to_sympy result is not a polynomial in %s: %s" % (names, str(e)[:80]))
            return
        got = M.MP()
        for mono, coef in poly.terms():
            # coefficient: a polynomial in the token symbols with rational coefficients
            if ts:
                cp = sympy.Poly(coef, *ts)
                val = Sym.const(0)
                for tm, c in cp.terms():
                    term = Sym.const(Fraction(int(sympy.numer(c)), int(sympy.denom(c))) if c.is_Rational else Fraction(float(c)))
                    for tok, k in zip(tokens, tm):
                        for _ in range(int(k)):
                            term = term * tok
                    val = val + term
            else:
                val = Sym.const(Fraction(int(sympy.numer(coef)), int(sympy.denom(coef))) if coef.is_Rational else Fraction(float(coef)))
            key = tuple(sorted(((n, int(k)) for n, k in zip(names, mono) if k), key=lambda t: M._name_key(t[0])))
            got = got + M.MP({key: val})
        ctx.expect_model(M.mp_array([got], ()), mp, "to_sympy(p)")
        if not ctx.symbolic:
            # concrete runs only: the documented round trip through numpoly.polynomial
            try:
                back = numpoly.polynomial(expr)
                ctx.expect_model(back, mp, "polynomial(to_sympy(p))")
            except Exception as e:
                if any(bool(c != 0) for e_ in M.flat_items(mp) for m_, c in e_.terms.items() if m_ != ()):
                    ctx.unexpected_exception(e, "polynomial(to_sympy(p))")
    finally:
        ENGINE.str_hook = old_hook


def body(ctx: H.BaseCtx):
    import numpoly

    if ctx.case.get("op") == "sympy":
        return body_sympy(ctx)
    if ctx.case.get("op") == "special":
        return body_special(ctx)
    case = ctx.case
    spec = case["poly"]
    old_hook = ENGINE.str_hook
    if ctx.symbolic:
        ENGINE.str_hook = _str_hook
    try:
        p = ctx.build(spec)
        mp = ctx.model(spec)
        names = list(spec["names"])
        snap = snapshot_args([p])
        opt = numpoly.get_options()
        mul, exp = opt["display_multiply"], opt["display_exponent"]
        g, r, inv = opt["display_graded"], opt["display_reverse"], opt["display_inverse"]
        try:
            texts = {"str": str(p), "repr": repr(p), "array_str": numpoly.array_str(p), "array_repr": numpy.array_repr(p)}
            if case.get("explicit"):
                # the same texts asked for with the formatting arguments spelled out (suppression of small numbers declined)
                texts.update({
                    "array_str(suppress_small=False)": numpoly.array_str(p, suppress_small=False),
                    "array_repr(suppress_small=False)": numpoly.array_repr(p, suppress_small=False),
                    "array_str(positional None, None, False)": numpoly.array_str(p, None, None, False),
                    "numpy.array_repr(suppress_small=False)": numpy.array_repr(p, suppress_small=False),
                    "array_str(max_line_width=1000)": numpoly.array_str(p, max_line_width=1000),
                })
        except Exception as e:
            ctx.unexpected_exception(e, "str/repr")
            return
        tokens = ENGINE.path_cache.get("tokens", []) if ctx.symbolic else []
        items = M.flat_items(mp)
        shape = tuple(mp.shape)
        for kind, text in texts.items():
            body_text, sep = text, " "
            if "repr" in kind:
                if not (text.startswith("polynomial(") and text.endswith(")")):
                    ctx.fail("format", "%s is %r" % (kind, text[:60]))
                    continue
                body_text, sep = text[len("polynomial(") : -1], ", "
            try:
                nested = parse_nested(body_text, sep)
                if _shape_of(nested) != shape:
                    ctx.fail("shape", "%s text %r has shape %s, expected %s" % (kind, text[:80], _shape_of(nested), shape))
                    continue
                elems = _flatten(nested)
                for i, (et, me) in enumerate(zip(elems, items)):
                    val, order = parse_scalar(et, mul, exp, tokens)
                    ok = ctx.expect_model(M.mp_array([val], ()), M.mp_array([me], ()), "%s element %d text %r" % (kind, i, et[:50]))
                    keys = [order_key(m, names, g, r) for m in order]
                    want = sorted(keys, reverse=bool(inv))
                    if keys != want:
                        ctx.fail("order", "%s element %d: terms printed as %s, not in the selected monomial order (graded=%s reverse=%s inverse=%s)" % (kind, i, et[:60], g, r, inv))
                    if len(set(order)) != len(order):
                        ctx.fail("format", "%s element %d prints a monomial twice: %r" % (kind, i, et[:60]))
            except ParseError as e:
                ctx.fail("format", "%s text cannot be read back as arithmetic: %s" % (kind, e))
        check_unmodified(ctx, [p], snap)
    finally:
        ENGINE.str_hook = old_hook


def body_special(ctx: H.BaseCtx):
    """Native only, default display options: complex / signed-zero / tiny coefficients.  The printed text of every element, read
    by python as ordinary arithmetic at two points, must give the value of that element at those points."""
    import numpoly
    from .. import special as SP

    if ctx.symbolic:
        return
    q0, q1 = numpoly.variable(2)
    extra = [("negated imaginary", -(q0 + 2j)), ("negated imaginary array", numpoly.polynomial([-(q0 * q1 + 1j), -1j * q1 - 2, (1 - 1j) * q0])), ("imaginary times -1", (q0 * 1j + 1) * -1),
             ("bool", numpoly.polynomial(numpy.array([True, False])) * 1 + (q0 > q1))] if False else [("negated imaginary", -(q0 + 2j)), ("negated imaginary array", numpoly.polynomial([-(q0 * q1 + 1j), -1j * q1 - 2, (1 - 1j) * q0])), ("imaginary times -1", (q0 * 1j + 1) * -1)]
    sci = 2.5e-05 * q0 ** 2 + 3 * q0 * q1 - 0.5 * q1 + 7
    extra += [("exponent-notation floats", sci), ("exponent-notation floats array", numpoly.polynomial([sci, 4e+20 * q0 - 1e-07, q1 * 1e-300 + 2e+100 * q0 * q1 ** 2 - 3.5]))]
    polys = [(l, p) for l, p in SP.zoo((2,)) if "non-finite" not in l and "complex64" not in l and "float32" not in l] + extra
    points = [{"q0": 1.3, "q1": -0.7}, {"q0": -2.0, "q1": 0.25}]
    with numpy.errstate(all="ignore"):
        for label, p in polys:
            import re as _re

            widths = [(k, f) for w in (20, 30, 45) for k, f in (("array_repr(max_line_width=%d)" % w, lambda w=w: numpoly.array_repr(p, max_line_width=w)), ("numpy.array_repr(p, %d)" % w, lambda w=w: numpy.array_repr(p, w)),
                                                               ("array_str(max_line_width=%d)" % w, lambda w=w: numpoly.array_str(p, max_line_width=w)))]
            variants = [("str", str(p)), ("repr", repr(p)), ("array_str", numpoly.array_str(p))]
            for k, f in widths:
                try:
                    variants.append((k, f()))
                except Exception as e:
                    ctx.unexpected_exception(e, k)
            for kind, text in variants:
                # (a narrow width may break lines: between elements, or inside an element -- where python's own reader needs the break gone)
                text = _re.sub(r",\n\s*", ", ", text) if "repr" in kind else text
                text = _re.sub(r"\n\s*", "" if not p.shape else " ", text)
                body_text, sep = text, " "
                if "repr" in kind:
                    if not (text.startswith("polynomial(") and text.endswith(")")):
                        ctx.fail("format", "%s of a %s polynomial is %r" % (kind, label, text[:60]))
                        continue
                    body_text, sep = text[len("polynomial("):-1], ", "
                try:
                    elems = _flatten(parse_nested(body_text, sep)) if body_text.strip().startswith("[") else [body_text.strip()]
                except ParseError as e:
                    ctx.fail("format", "%s of a %s polynomial cannot be split into elements: %s" % (kind, label, e))
                    continue
                flat = [p] if not p.shape else [p[i] for i in numpy.ndindex(*p.shape)]
                if len(elems) != len(flat):
                    ctx.fail("shape", "%s of a %s polynomial has %d elements, expected %d: %r" % (kind, label, len(elems), len(flat), text[:80]))
                    continue
                for et, el in zip(elems, flat):
                    for pt in points:
                        try:
                            val = eval(et, {"__builtins__": {}}, dict(pt))  # noqa: S307 -- text produced by the library under test
                        except Exception as e:
                            ctx.fail("format", "%s text %r of a %s polynomial cannot be read as arithmetic: %s: %s" % (kind, et[:60], label, type(e).__name__, str(e)[:40]))
                            break
                        want = el(**{k: v for k, v in pt.items() if k in el.names})
                        want = numpy.asarray(want.tonumpy() if isinstance(want, numpoly.ndpoly) else want)
                        if not SP.close_parts(numpy.asarray(val, dtype=complex), numpy.asarray(want, dtype=complex), rtol=1e-7):
                            ctx.fail("value", "%s text %r of a %s polynomial evaluates to %s at %s, the element to %s" % (kind, et[:60], label, val, pt, want.tolist()))
                            break


def body_for(case):
    return body


def run_case(case: Dict) -> Dict:
    return H.simple_run_case(case, body, [case["poly"]])


def gen_cases(tier: str, seed: int) -> List[Dict]:
    rng = random.Random(16000 + seed)
    quick = tier == "quick"
    lim = H.limits(tier, quick=(3000, 45.0), thorough=(30000, 300.0))
    cases: List[Dict] = []
    n = 0
    bools = [dict(zip(["display_graded", "display_reverse", "display_inverse"], b)) for b in itertools.product([True, False], repeat=3)]
    signs = [{}, {"display_exponent": "^"}, {"display_multiply": "·"}, {"display_exponent": "^", "display_multiply": "×"}]
    monosets = [
        (("q0",), [[0], [1], [2], [3]]),
        (("q0", "q1"), [[0, 0], [1, 0], [0, 1], [1, 1]]),
        (("q0", "q1"), [[2, 0], [1, 1], [0, 2], [3, 0], [0, 1]]),
        (("q1", "q12"), [[1, 0], [0, 1], [0, 0], [2, 1]]),
        (("q0", "q1", "q2"), [[1, 0, 0], [0, 1, 0], [0, 0, 1], [1, 1, 1]]),
        # index order and string order of the names disagree (q10 < q2 as text), exponents not symmetric under the swap
        (("q2", "q10"), [[2, 1], [1, 0], [0, 0], [0, 3]]),
        (("q3", "q9", "q11"), [[1, 0, 2], [0, 1, 0], [2, 0, 0], [0, 0, 1]]),
    ]
    shapes = [(), (), (2,), (2, 2)] if quick else [(), (1,), (2,), (3,), (2, 2), (1, 2), (2, 1, 2)]
    reps = 5 if quick else 60
    for _ in range(reps):
        for names, exps in monosets:
            for b in bools:
                shape = rng.choice(shapes)
                sub = [e for e in exps if rng.random() < 0.8] or exps[:1]
                atoms = (3 if shape == () else 2) if quick else 4
                spec = S.make_poly_spec("a", names, sub, shape, rng, atoms, zero_prob=0.15, literal_prob=0.3, mode=rng.choice(["raw", "clean"]))
                # literals +-1 reachable also as atoms (the solver explores a == 1, a == -1, a == 0, a < 0)
                opt = dict(b)
                opt.update(rng.choice(signs))
                n += 1
                cases.append({"id": "%s-%03d-text" % (PROP, n), "op": "text", "poly": spec, "options": opt, "explicit": n % 4 == 0, "limits": lim})
    # to_sympy on single (0-d) polynomials, default display options
    for names, exps in monosets:
        for _ in range(2 if quick else 10):
            sub = [e for e in exps if rng.random() < 0.8] or exps[:1]
            spec = S.make_poly_spec("a", names, sub, (), rng, 3, zero_prob=0.1, literal_prob=0.3, mode=rng.choice(["raw", "clean"]))
            n += 1
            cases.append({"id": "%s-%03d-sympy" % (PROP, n), "op": "sympy", "poly": spec, "options": {}, "limits": lim})
    for coef in (9007199254740993, -(2 ** 62 + 5)):
        n += 1
        cases.append({"id": "%s-%03d-sympy-bigint" % (PROP, n), "op": "sympy", "options": {}, "limits": lim,
                      "poly": {"kind": "poly", "names": ["q0", "q1"], "exps": [[0, 0], [1, 1], [2, 0]], "shape": [], "slots": [[7], [coef], ["a0"]], "mode": "raw"}})
    cases.append({"id": "%s-%03d-special-content" % (PROP, n + 1), "op": "special", "options": {}, "limits": lim,
                  "poly": {"kind": "poly", "names": ["q0"], "exps": [[0]], "shape": [], "slots": [[1]], "mode": "raw"}})
    return cases


def main(argv=None) -> int:
    return H.simple_main(
        PROP, MOD, gen_cases,
        rule="one case = (polynomial structure, display option setting); non-trivial = >= 2 feasible paths (sign / +-1 / zero forks)",
        bounds={"terms": "<= 5 over <= 3 indeterminates (names up to q12)", "shapes": "() .. (2,2) quick / 3-d thorough", "display_settings": "8 boolean x 4 exponent/multiply sign variants",
                "to_sympy": "0-d polynomials under default display options: the sympy expression must denote p (tokens evaluate to sympy symbols); the round trip polynomial(to_sympy(p)) only in native runs",
                "outside": "float/complex/bool coefficient formatting (python's formatting of concrete numbers), suppress_small"},
        functions=["numpoly.array_repr", "numpoly.array_str", "ndpoly.__str__/__repr__", "array_repr.to_string/_to_string", "numpoly.glexsort"],
        assumptions=["S5: str(Sym) = '-'+token(-x) if x < 0 else token(x); float(Sym) usable in sign tests only; number formatting trusted"],
        argv=argv,
    )


if __name__ == "__main__":
    sys.exit(main())
