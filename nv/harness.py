"""Shared check driver: contexts (symbolic / concrete), case exploration, replay, known
findings, evidence, process pool, CLI."""
from __future__ import annotations

import argparse
import concurrent.futures as cf
import hashlib
import json
import multiprocessing as mp
import os
import random
import re
import subprocess
import sys
import time
import traceback
from fractions import Fraction
from typing import Any, Callable, Dict, List, Optional, Sequence, Tuple

import numpy

VERIF = os.path.dirname(os.path.dirname(os.path.abspath(__file__)))
EVIDENCE_DIR = os.environ.get("NV_EVIDENCE_DIR") or os.path.join(VERIF, "evidence")  # (seed runs against scratch worktrees keep theirs apart)
REPLAY_DIR = os.path.join(VERIF, "replay")
KNOWN_FILE = os.path.join(VERIF, "known_findings.json")

HARNESS_ERROR = 3  # reserved exit code: machinery failure (never a verdict)
MAX_SUBPROCESS_REPLAYS = 6
MAX_PATH_WITNESSES = 8  # per case: native runs on solver-chosen witnesses of explored paths
WITNESS_STRIDE = 1
MAX_VIOLATION_LINES = 20


def frac_str(f: Fraction) -> str:
    return str(f.numerator) if f.denominator == 1 else "%d/%d" % (f.numerator, f.denominator)


def parse_frac(s) -> Fraction:
    return Fraction(s)


class Issue:
    def __init__(self, kind: str, op: str, detail: str, values: Optional[Dict[str, Fraction]] = None):
        self.kind = kind
        self.op = op
        self.detail = detail
        self.values = values or {}

    def signature(self) -> str:
        d = re.sub(r"'[^']*'", "'..'", self.detail)
        d = re.sub(r"0x[0-9a-f]+", "0x?", d)
        d = re.sub(r"-?\d+(\.\d+)?(e[-+]?\d+)?", "N", d)
        return "%s|%s|%s" % (self.op, self.kind, d[:80])

    def to_json(self) -> Dict:
        return {"kind": self.kind, "op": self.op, "detail": self.detail, "values": {k: frac_str(v) for k, v in self.values.items()}}


# --------------------------------------------------------------------------------------
# contexts
# --------------------------------------------------------------------------------------


class BaseCtx:
    symbolic = False

    def __init__(self, case: Dict):
        self.case = case
        self.issues: List[Issue] = []
        self.op = case.get("op", "?")
        self.checked = 0
        self.built: List[Any] = []  # operands handed to the body
        self.results: List[Any] = []  # library results the body compared (native runs: what a caller could go on to modify)

    # construction ------------------------------------------------------------
    def build(self, spec):
        from . import structures as S

        o = S.build_operand(spec, self.values())
        self.built.append(o)
        return o

    def model(self, spec):
        from . import structures as S

        return S.model_operand(spec, self.values())

    def values(self):
        return None

    # verdicts ----------------------------------------------------------------
    def fail(self, kind: str, detail: str, witness=None):
        self.issues.append(Issue(kind, self.op, detail, self._witness_values(witness)))

    def _witness_values(self, witness):
        return {}

    def is_zero(self, d) -> Tuple[bool, Any]:
        raise NotImplementedError

    def check_true(self, cond, kind: str, detail: str):
        """cond: python bool, SymBool or z3 BoolRef that must hold on this path."""
        raise NotImplementedError

    # ---------------------------------------------------------------------------
    def expect_exception(self, exc: Optional[BaseException], allowed: Sequence[type], what: str):
        if exc is None:
            self.fail("no-exception", "%s: expected %s, call returned" % (what, "/".join(a.__name__ for a in allowed)))
        elif not isinstance(exc, tuple(allowed)):
            self.fail("exception", "%s: %s: %s" % (what, type(exc).__name__, str(exc)[:120]))

    def unexpected_exception(self, exc: BaseException, what: str = ""):
        tb = traceback.extract_tb(exc.__traceback__)
        where = ""
        for fr in reversed(tb):
            if "/numpoly/" in fr.filename:
                where = " @%s:%s" % (os.path.basename(fr.filename), fr.name)
                break
        self.fail("exception", "%s%s: %s%s" % (what + ": " if what else "", type(exc).__name__, str(exc)[:100], where))

    def expect_model(self, got, expected, what: str = "result", names=None, allow_extra_names=True, rtol: Optional[float] = None, atol: Optional[float] = None):
        """``got`` (ndpoly / ndarray / number) must denote the model array ``expected``."""
        from . import model as M
        import numpoly

        if not self.symbolic and len(self.results) < 64:
            self.results.append(got)
        try:
            gm = M.to_model(got)
        except Exception as e:  # malformed result
            self.fail("malformed", "%s: cannot read result: %s: %s" % (what, type(e).__name__, str(e)[:100]))
            return False
        exp = numpy.asarray(expected, dtype=object) if not isinstance(expected, numpy.ndarray) else expected
        if tuple(gm.shape) != tuple(exp.shape):
            self.fail("shape", "%s: shape %s, expected %s" % (what, tuple(gm.shape), tuple(exp.shape)))
            return False
        ok = True
        # native integer / bool results are compared exactly; the float tolerance is for float results only
        gd = getattr(got, "dtype", None)
        if rtol is None and gd is not None and gd != object and getattr(gd, "kind", "O") in "iub":
            rtol = 0
        gl, el = M.flat_items(gm), M.flat_items(exp)
        for i, (g, e) in enumerate(zip(gl, el)):
            e = M.MP.lift(e)
            for mono, d in M.mp_diff_monos(g, e):
                self.checked += 1
                if d.tainted:
                    self.fail("uninitialised", "%s: element %d monomial %s depends on memory never written" % (what, i, _mono_str(mono)))
                    ok = False
                    continue
                if atol is not None and d.is_const() and abs(d.const_value()) <= Fraction(atol):
                    continue
                z, wit = self.is_zero(d, rtol=rtol, scale=e.coeff(mono))
                if not z:
                    self.fail(
                        "value",
                        "%s: element %d coefficient of %s is %s, expected %s" % (what, i, _mono_str(mono), _pp(g.coeff(mono)), _pp(e.coeff(mono))),
                        wit,
                    )
                    ok = False
                    break
            if not ok:
                break
        if names is not None and isinstance(got, numpoly.ndpoly):
            gn = tuple(got.names)
            need = tuple(names)
            if allow_extra_names:
                if not set(need) <= set(gn):
                    self.fail("names", "%s: names %s do not include %s" % (what, gn, need))
                    ok = False
            elif gn != need:
                self.fail("names", "%s: names %s, expected %s" % (what, gn, need))
                ok = False
        return ok


def _mono_str(m) -> str:
    return "*".join(n if p == 1 else "%s**%d" % (n, p) for n, p in m) or "1"


def _pp(s) -> str:
    return s.pretty()[:60]


class SymCtx(BaseCtx):
    symbolic = True

    def __init__(self, case, atoms: List[str]):
        super().__init__(case)
        self.atoms = atoms

    def _witness_values(self, witness):
        from .engine import ENGINE, model_value

        m = witness
        if m is None:
            m = ENGINE.small_model(atoms=self.atoms)
        else:
            # prefer a small integer witness of the same violation if there is one
            pass
        if m is None:
            return {}
        out = {}
        for a in self.atoms:
            try:
                out[a] = model_value(m, a)
            except Exception:
                out[a] = Fraction(0)
        return out

    def is_zero(self, d, rtol=None, scale=None):
        from .engine import ENGINE, _cp_to_z3

        st, m = ENGINE.prove_zero(d)
        if st == "valid":
            return True, None
        if st == "unknown":
            ENGINE.event("inconclusive", "validity query unknown")
            return True, None
        # try to get a small-integer witness for replay
        if not d.is_const():
            sm = ENGINE.small_model(extra=(_cp_to_z3(d.num) != 0), atoms=self.atoms)
            if sm is not None:
                m = sm
        return False, m

    def check_true(self, cond, kind, detail):
        import z3
        from .engine import ENGINE, SymBool

        if isinstance(cond, SymBool):
            cond = cond.z3()
        if isinstance(cond, (bool, numpy.bool_)):
            if not cond:
                self.fail(kind, detail)
            return bool(cond)
        st, m = ENGINE.prove(cond)
        if st == "invalid":
            sm = ENGINE.small_model(extra=z3.Not(cond), atoms=self.atoms)
            self.fail(kind, detail, sm or m)
            return False
        if st == "unknown":
            ENGINE.event("inconclusive", "validity query unknown")
        return True


class ConcreteCtx(BaseCtx):
    """Native replay: atoms replaced by numbers, real dtypes, exact comparison in Fractions."""

    def __init__(self, case, values: Dict[str, Fraction]):
        super().__init__(case)
        self._values = values

    def values(self):
        return self._values

    def is_zero(self, d, rtol=None, scale=None):
        v = d.const_value()
        if v == 0:
            return True, None
        if rtol is None:
            rtol = 1e-9  # native floats (mean, division): rounding is outside every claim
        if rtol:
            s = abs(scale.const_value()) if scale is not None and scale.is_const() else Fraction(0)
            if abs(v) <= Fraction(rtol) * max(s, Fraction(1)):
                return True, None
        return False, None

    def check_true(self, cond, kind, detail):
        from .engine import SymBool

        if isinstance(cond, SymBool):
            cond = bool(cond)
        if not cond:
            self.fail(kind, detail)
        return bool(cond)


# --------------------------------------------------------------------------------------
# exploring one case
# --------------------------------------------------------------------------------------


def _poison_install():
    """Native replay helper: fill every fresh ndpoly buffer with 0xA5 (property C12's hook)."""
    import numpoly

    if getattr(numpoly.ndpoly, "_nv_poison", False):
        return
    real_new = numpoly.ndpoly.__new__

    def poisoned(cls, *a, **k):
        obj = real_new(cls, *a, **k)
        try:
            if obj._dtype != object and obj.size:
                numpy.frombuffer(obj.data, dtype=numpy.uint8)[:] = 0xA5
        except Exception:
            pass
        return obj

    numpoly.ndpoly.__new__ = staticmethod(poisoned)
    numpoly.ndpoly._nv_poison = True


def concrete_run(body: Callable, case: Dict, values: Dict[str, Fraction]) -> List[Issue]:
    """Run the body natively with concrete values (no Engine active)."""
    import numpoly

    ctx = ConcreteCtx(case, values)
    with numpoly.global_options(**numpoly.get_options(defaults=True)):
        try:
            body(ctx)
        except Exception as e:
            ctx.fail("harness-exception", "%s: %s" % (type(e).__name__, str(e)[:200]))
    return ctx.issues


def explore_case(
    case: Dict,
    body: Callable[[BaseCtx], None],
    atoms: List[str],
    max_paths: int = 2000,
    time_budget: float = 60.0,
    int_atoms: bool = False,
    options: Optional[Dict[str, Any]] = None,
) -> Dict:
    """Symbolically explore ``body`` over all values of ``atoms``; replay every issue natively."""
    from .engine import ENGINE, PathResult
    from . import stubs
    import numpoly

    stubs.install()
    ENGINE.set_int_atoms(int_atoms)
    t0 = time.time()
    q0 = dict(ENGINE.stats)
    raw: List[Tuple[Issue, List[bool]]] = []
    witnesses: List[Dict[str, Fraction]] = []
    inconcl: List[str] = []
    havoc_events = 0
    path_log: List[Dict] = []

    summary_paths = [0]

    def fn():
        ctx = SymCtx(case, atoms)
        with numpoly.global_options(**numpoly.get_options(defaults=True)):
            if options:
                numpoly.set_options(**options)
            body(ctx)
        return ctx

    def on_path(res: PathResult):
        nonlocal havoc_events
        if res.exc is not None:
            raise res.exc  # the body must catch library exceptions itself: this is a harness bug
        for k, d in res.events:
            if k == "inconclusive":
                inconcl.append(d)
            elif k == "havoc-branch":
                havoc_events += 1
        if res.aborted:
            if res.aborted != "assume-infeasible":
                inconcl.append("path aborted: " + res.aborted)
            return
        ctx = res.value
        hv = [d for k, d in res.events if k == "havoc-branch"]
        if hv and not any(i.kind == "uninitialised" for i in ctx.issues):
            ctx.fail("uninitialised", "a branch depends on memory the operation never wrote: %s" % hv[0][:80])
        for iss in ctx.issues:
            raw.append((iss, list(res.decisions)))
        if not ctx.issues and atoms and len(witnesses) < MAX_PATH_WITNESSES and (summary_paths[0] % WITNESS_STRIDE == 0):
            # a concrete witness of this path's condition (small integers preferred): the native run below is steered by the
            # solver towards this path's boundary values
            from .engine import model_value

            m = ENGINE.small_model(atoms=atoms)
            if m is not None:
                try:
                    witnesses.append({a: model_value(m, a) for a in atoms})
                except Exception:
                    pass
        summary_paths[0] += 1
        if len(path_log) < 3:
            path_log.append({"decisions": len(res.decisions), "pc": [str(c)[:80] for c in res.pc[:6]], "checked": ctx.checked})

    try:
        summary = ENGINE.explore(fn, on_path, max_paths=max_paths, time_budget=time_budget)
    except Exception as e:
        tb = traceback.format_exc()
        return {
            "case": case,
            "harness_error": "%s: %s" % (type(e).__name__, str(e)[:300]),
            "traceback": tb[-1500:],
            "paths": 0,
            "wall_s": time.time() - t0,
        }
    # replay natively, in process (stubs dispatch on dtype; Engine inactive)
    confirmed: List[Dict] = []
    unconfirmed: List[Dict] = []
    seen_sig: Dict[str, int] = {}
    for iss, decisions in raw:
        sig = iss.signature()
        seen_sig[sig] = seen_sig.get(sig, 0) + 1
        if seen_sig[sig] > 2:
            continue
        vals = {a: iss.values.get(a, Fraction(0)) for a in atoms}
        env = None
        try:
            rep = concrete_run_poisoned(body, case, vals, options)
            match = _matching(rep, iss)
            if not match:
                # S4: a conforming numpy whose unstable argsort orders ties differently
                rep2 = concrete_run_poisoned(body, case, vals, options, reverse_ties=True)
                if _matching(rep2, iss):
                    rep, env = rep2, "reverse-ties"
                elif _narrow_ok(vals):
                    # the symbolic run takes the branches for coefficient types the compiled kernels do not serve: same input as int32
                    rep3 = concrete_run_poisoned(body, case, vals, options, narrow=True)
                    if _matching(rep3, iss):
                        rep, env = rep3, "int32"
        except Exception as e:
            rep = [Issue("harness-exception", iss.op, "%s: %s" % (type(e).__name__, e))]
        match = _matching(rep, iss)
        rec = iss.to_json()
        rec["signature"] = sig
        rec["values"] = {a: frac_str(v) for a, v in vals.items()}
        if match:
            rec["native_detail"] = match[0].detail
            if env == "reverse-ties":
                rec["env"] = env
                rec["detail"] += " [under a conforming numpy whose unstable argsort reverses ties]"
            elif env:
                rec["env"] = env
                rec["detail"] += " [reproduces natively with int32 coefficients]"
            confirmed.append(rec)
        else:
            rec["native_issues"] = [r.to_json() for r in rep][:3]
            unconfirmed.append(rec)
    # native fidelity runs: the same body on native dtypes (compiled kernels, no Engine) with concrete small integers.
    # They validate the object-dtype carrier/stubs against what users get; a native disagreement with the model is a
    # genuine violation (reported, flagged as found by the fidelity run rather than by the solver).
    fidelity = 0
    import zlib

    frng = random.Random(zlib.crc32(json.dumps(case, sort_keys=True, default=str).encode()))
    executed = set()

    def _prof(frame, event, arg):
        if event == "call":
            fn = frame.f_code.co_filename
            if "/numpoly/" in fn and "/verif/" not in fn:
                executed.add("%s:%s" % (fn.split("/numpoly/", 1)[1], frame.f_code.co_name))

    valuations = [{a: Fraction(frng.choice([-3, -2, -1, 0, 0, 1, 1, 2, 3, 5])) for a in atoms} for _ in range(2)] + witnesses
    # self-contained native cases (special values, bulk sizes: no operand specs, nothing symbolic): one native run is all there is
    standalone = bool(case.get("native_only")) or "special" in (str(case.get("op", "")) + str(case.get("fn", "")) + str(case.get("mode", "")))
    if standalone:
        valuations = valuations[:1]
    native_hx: List[str] = []
    n_wide = len(valuations)
    if not standalone:
        valuations = valuations + [valuations[0]]  # once more as int32 (a coefficient type outside the compiled kernels)
    global NATIVE_RUN_INDEX
    for _k, vals in enumerate(valuations):
        NATIVE_RUN_INDEX = _k
        try:
            if _k == 0 and not case.get("native_only") and "special" not in (str(case.get("op", "")) + str(case.get("fn", "")) + str(case.get("mode", ""))):
                sys.setprofile(_prof)  # measured list of numpoly functions this case executes (not for the bulk-size native cases)
            try:
                rep = concrete_run_poisoned(body, case, vals, options, narrow=_k >= n_wide)
            finally:
                sys.setprofile(None)
        except Exception as e:
            rep = [Issue("harness-exception", case.get("op", "?"), "%s: %s" % (type(e).__name__, e))]
        fidelity += 1
        for r in rep:
            if r.kind == "harness-exception":
                native_hx.append(r.detail[:160])  # the oracle / driver itself failed in this native run: counted, never a verdict
                continue
            sig = r.signature()
            if seen_sig.get(sig):
                continue
            seen_sig[sig] = 1
            rec = r.to_json()
            rec["signature"] = sig
            rec["values"] = {a: frac_str(v) for a, v in vals.items()}
            rec["native_detail"] = r.detail
            rec["detail"] += " [native fidelity run, int32 coefficients]" if _k >= n_wide else " [native fidelity run]" if _k < 2 else " [native run on a solver-chosen path witness]"
            if _k >= n_wide:
                rec["env"] = "int32"
            confirmed.append(rec)
    NATIVE_RUN_INDEX = 1  # (the passes below repeat runs: value-independent blocks need not run again)
    # state kept between calls: repeat the first native run after overwriting everything the first pass handed out
    try:
        for r in ([] if standalone else scribble_rerun(body, case, valuations[0], options)):
            sig = r.signature()
            if seen_sig.get(sig):
                continue
            seen_sig[sig] = 1
            rec = r.to_json()
            rec["signature"] = sig
            rec["values"] = {a: frac_str(v) for a, v in valuations[0].items()}
            rec["native_detail"] = r.detail
            rec["env"] = "scribble"
            confirmed.append(rec)
        fidelity += 1
    except Exception:
        pass
    # ... and on the same operand objects with new contents (identity-keyed memo tables)
    try:
        if len(valuations) >= 2 and valuations[0] != valuations[1]:
            for r in reuse_rerun(body, case, valuations[0], valuations[1], options):
                sig = r.signature()
                if seen_sig.get(sig):
                    continue
                seen_sig[sig] = 1
                rec = r.to_json()
                rec["signature"] = sig
                rec["values"] = {a: frac_str(v) for a, v in valuations[1].items()}
                rec["values_before"] = {a: frac_str(v) for a, v in valuations[0].items()}
                rec["native_detail"] = r.detail
                rec["env"] = "reuse"
                confirmed.append(rec)
            fidelity += 1
    except Exception:
        pass
    NATIVE_RUN_INDEX = 0
    d = {k: ENGINE.stats[k] - q0.get(k, 0) for k in ENGINE.stats}
    return {
        "case": case,
        "fidelity_runs": fidelity,
        "native_harness_exceptions": native_hx[:3],
        "n_native_harness_exceptions": len(native_hx),
        "functions_executed": sorted(executed),
        "assumptions_used": sorted(ENGINE.assumptions_used),
        "paths": summary["paths"],
        "exhausted": summary["exhausted"],
        "aborted": summary["aborted"],
        "abort_reasons": summary["abort_reasons"],
        "max_depth": summary["max_depth"],
        "raw_issues": len(raw),
        "signatures": seen_sig,
        "confirmed": confirmed,
        "unconfirmed": unconfirmed,
        "inconclusive": inconcl[:5],
        "n_inconclusive": len(inconcl),
        "havoc_branches": havoc_events,
        "stats": d,
        "path_log": path_log,
        "wall_s": time.time() - t0,
    }


def _matching(rep: List[Issue], iss: Issue) -> List[Issue]:
    return [
        r
        for r in rep
        if r.kind == iss.kind
        or (iss.kind == "uninitialised" and r.kind in ("value", "exception"))
        or (iss.kind == "value" and r.kind in ("shape", "malformed"))
    ]


# index of the native run of the current case (0 = first / a replay): bodies may confine value-independent native blocks to run 0
NATIVE_RUN_INDEX = 0


def scribble(objs, accessors_only: bool = False) -> int:
    """What a caller is free to do with objects the library handed out: overwrite them in place.  Every writable array /
    polynomial in ``objs`` -- and what the accessors and public helper functions return for each polynomial (``exponents``,
    ``indeterminants``, ``coefficients``, ``glexsort`` of its exponents, ``sortable_proxy``, ``lead_exponent`` ...) -- is
    filled with a sentinel.  ``accessors_only``: leave the objects themselves alone (they are about to be used again).
    Returns the number of arrays written."""
    import numpoly

    n = 0
    seen = set()

    def fill(a):
        nonlocal n
        try:
            if isinstance(a, numpoly.ndpoly):
                raw = a.view(numpy.ndarray)
                if raw.flags.writeable and raw.size:
                    for key in raw.dtype.names or ():
                        raw[key] = 7
                    n += 1
            elif isinstance(a, numpy.ndarray) and a.flags.writeable and a.size and a.dtype.kind in "biufc":
                a[...] = 7
                n += 1
        except Exception:
            pass

    def visit(o, depth=0):
        if id(o) in seen or depth > 3:
            return
        seen.add(id(o))
        if isinstance(o, (list, tuple)):
            for x in o:
                visit(x, depth + 1)
            return
        if isinstance(o, numpoly.ndpoly):
            handed = []
            for acc in ("exponents", "indeterminants") + (() if accessors_only else ("coefficients",)):
                try:
                    handed.append(getattr(o, acc))
                except Exception:
                    pass
            try:
                if len(o.keys) > 200:
                    raise ValueError("bulk-size polynomial: the helper functions are quadratic in the number of terms")
                ex = o.exponents
                for g in (False, True):
                    for r in (False, True):
                        handed.append(numpoly.glexsort(ex.T, graded=g, reverse=r))
                handed.append(numpoly.sortable_proxy(o))
                handed.append(numpoly.lead_exponent(o))
                handed.append(numpoly.lead_coefficient(o))
                handed.append(numpoly.glexindex(2, dimensions=max(1, len(o.names))))
                handed.append(numpoly.variable(len(o.names)))
            except Exception:
                pass
            for v in handed:
                for x in v if isinstance(v, (list, tuple)) else [v]:
                    fill(x)
        if not accessors_only:
            fill(o)

    for o in objs:
        visit(o)
    return n


def scribble_rerun(body, case, values, options=None) -> List[Issue]:
    """Native run, then the caller overwrites everything it was handed, then the same native run again on freshly built
    operands: the second run must not be affected (results and accessors own their memory or share it only with the
    arguments of that call -- never with module-level state or with what a later call returns)."""
    import numpoly

    _poison_install()
    first = ConcreteCtx(case, values)
    second = ConcreteCtx(case, values)
    from . import structures as _S

    try:
        with numpoly.global_options(**numpoly.get_options(defaults=True)):
            if options:
                numpoly.set_options(**options)
            for k, ctx in enumerate((first, second)):
                try:
                    body(ctx)
                except _S.Unrepresentable:
                    return []
                except Exception as e:
                    ctx.fail("harness-exception", "%s: %s" % (type(e).__name__, str(e)[:200]))
                if k == 0:
                    scribble(list(first.results) + list(first.built))
    except Exception:
        return []
    had = {i.signature() for i in first.issues}
    out = []
    for i in second.issues:
        if i.signature() not in had and i.kind != "harness-exception":
            i.detail += " [second identical call sequence, after the caller overwrote in place what the first one returned]"
            out.append(i)
    return out


class ReuseCtx(ConcreteCtx):
    """Second native pass on the *same operand objects* as a first pass, their contents overwritten in place with another
    valuation: anything remembered per object identity (memo tables, weak-reference caches) answers for the old contents."""

    def __init__(self, case, values, pool):
        super().__init__(case, values)
        self._pool = list(pool)
        self._k = 0
        self.reused = 0

    def build(self, spec):
        import numpoly
        from . import structures as S

        fresh = S.build_operand(spec, self.values())
        old = self._pool[self._k] if self._k < len(self._pool) else None
        self._k += 1
        try:
            if isinstance(fresh, numpoly.ndpoly) and isinstance(old, numpoly.ndpoly) and old.dtype == fresh.dtype and old.shape == fresh.shape and tuple(old.names) == tuple(fresh.names):
                ro, rf = old.view(numpy.ndarray), fresh.view(numpy.ndarray)
                if ro.dtype == rf.dtype and ro.flags.writeable:
                    ro[...] = rf
                    self.reused += 1
                    self.built.append(old)
                    return old
            elif type(fresh) is numpy.ndarray and type(old) is numpy.ndarray and old.dtype == fresh.dtype and old.shape == fresh.shape and old.flags.writeable:
                old[...] = fresh
                self.reused += 1
                self.built.append(old)
                return old
        except Exception:
            pass
        self.built.append(fresh)
        return fresh


def reuse_rerun(body, case, values1, values2, options=None) -> List[Issue]:
    import numpoly
    from . import structures as _S

    _poison_install()
    first = ConcreteCtx(case, values1)
    try:
        with numpoly.global_options(**numpoly.get_options(defaults=True)):
            if options:
                numpoly.set_options(**options)
            try:
                body(first)
            except _S.Unrepresentable:
                return []
            except Exception:
                return []
            scribble(list(first.built), accessors_only=True)  # what the accessors handed out is the caller's to overwrite
            second = ReuseCtx(case, values2, first.built)
            try:
                body(second)
            except _S.Unrepresentable:
                return []
            except Exception as e:
                second.fail("harness-exception", "%s: %s" % (type(e).__name__, str(e)[:200]))
    except Exception:
        return []
    if not second.reused:
        return []
    # what the second valuation gives on fresh objects is the reference: only differences from it count
    ref = {i.signature() for i in concrete_run_poisoned(body, case, values2, options)}
    out = []
    for i in second.issues:
        if i.signature() not in ref and i.kind != "harness-exception":
            i.detail += " [same operand objects as in an earlier call, contents changed in place in between]"
            out.append(i)
    return out


def _narrow_ok(values) -> bool:
    """int32 runs only where nothing can overflow: integer values of magnitude <= 10."""
    try:
        return all(Fraction(v).denominator == 1 and abs(Fraction(v)) <= 10 for v in values.values())
    except Exception:
        return False


def concrete_run_poisoned(body, case, values, options=None, reverse_ties: bool = False, narrow: bool = False) -> List[Issue]:
    import numpoly
    from . import structures as _S

    if narrow:
        _S.NARROW = True
        try:
            return concrete_run_poisoned(body, case, values, options, reverse_ties)
        finally:
            _S.NARROW = False
    _poison_install()
    if reverse_ties:
        from . import stubs

        stubs.install()
        stubs.CONCRETE_ENV["reverse_ties"] = True
    ctx = ConcreteCtx(case, values)
    try:
        with numpoly.global_options(**numpoly.get_options(defaults=True)):
            if options:
                numpoly.set_options(**options)
            try:
                body(ctx)
            except _S.Unrepresentable:
                return []  # this valuation has no exact native form under the case's dtypes: no native run
            except Exception as e:
                ctx.fail("harness-exception", "%s: %s" % (type(e).__name__, str(e)[:200]))
    finally:
        if reverse_ties:
            stubs.CONCRETE_ENV["reverse_ties"] = False
    return ctx.issues


# --------------------------------------------------------------------------------------
# known findings
# --------------------------------------------------------------------------------------


def load_known(prop: str) -> List[Dict]:
    if not os.path.exists(KNOWN_FILE):
        return []
    with open(KNOWN_FILE) as f:
        data = json.load(f)
    return [k for k in data.get("known", []) if k.get("property") == prop]


def known_match(entry: Dict, rec: Dict) -> bool:
    m = entry.get("match", {})
    if "op" in m and not re.fullmatch(m["op"], rec.get("op", "")):
        return False
    if "kind" in m and m["kind"] != rec.get("kind"):
        return False
    if "detail_re" in m and not re.search(m["detail_re"], rec.get("detail", "") + " || " + rec.get("native_detail", "")):
        return False
    if "case_re" in m and not re.search(m["case_re"], json.dumps(rec.get("case", {}), sort_keys=True)):
        return False
    return True


# --------------------------------------------------------------------------------------
# running a whole check
# --------------------------------------------------------------------------------------


def _worker_init():
    os.environ.setdefault("NUMPOLY_VERIF", "1")
    import warnings

    warnings.simplefilter("ignore")
    import logging

    logging.getLogger("numpoly").setLevel(logging.ERROR)
    logging.getLogger("numpoly").propagate = False
    sys.setrecursionlimit(10000)


def _run_one(args):
    modname, case = args
    import importlib

    mod = importlib.import_module(modname)
    t0 = time.time()
    try:
        rep = mod.run_case(case)
    except BaseException as e:  # noqa
        rep = {"case": case, "harness_error": "%s: %s" % (type(e).__name__, str(e)[:300]), "traceback": traceback.format_exc()[-1500:], "paths": 0}
    rep.setdefault("wall_s", time.time() - t0)
    return rep


def _worker_main(conn, modname: str):
    """Worker process of the supervised pool: cases come in over the pipe, reports go back; chunks keep the pipe traffic low."""
    _worker_init()
    while True:
        try:
            msg = conn.recv()
        except (EOFError, OSError):
            return
        if msg is None:
            return
        conn.send(_run_one((modname, msg)))


def _hard_limit(case: Dict) -> float:
    """Wall-clock limit after which a worker is presumed hung inside the solver (z3 was seen to ignore both its timeout and an
    interrupt for minutes): exploration budget of the case + room for the last query and the in-process native runs."""
    if not (case.get("limits") or {}).get("time"):
        return 900.0  # cases that manage their own solver (kernel / sorting / index obligations) carry their own time-outs
    budget = float(case["limits"]["time"])
    return budget + 40.0  # one overrunning query (10 s) + in-process native runs; subprocess replays happen in the parent


def run_pool(modname: str, cases: List[Dict], workers: int = 16, deadline_s: Optional[float] = None) -> List[Dict]:
    """Supervised process pool: one case at a time per worker; a worker that overruns the case's hard wall-clock limit is
    terminated and replaced, its case is reported inconclusive (never as held)."""
    from multiprocessing.connection import wait as _wait

    if not cases:
        return []
    reports: List[Dict] = []
    ctx = mp.get_context("spawn")
    t_end = None if deadline_s is None else time.time() + deadline_s
    todo = list(reversed(cases))
    slots: List[Dict[str, Any]] = []

    def spawn():
        parent, child = ctx.Pipe()
        proc = ctx.Process(target=_worker_main, args=(child, modname), daemon=True)
        proc.start()
        child.close()
        return {"proc": proc, "conn": parent, "case": None, "t0": 0.0}

    def feed(sl):
        if todo:
            sl["case"] = todo.pop()
            sl["t0"] = time.time()
            sl["conn"].send(sl["case"])
        else:
            sl["case"] = None

    for _ in range(min(workers, max(1, len(cases)))):
        sl = spawn()
        slots.append(sl)
        feed(sl)
    try:
        while any(sl["case"] is not None for sl in slots):
            busy = [sl for sl in slots if sl["case"] is not None]
            ready = _wait([sl["conn"] for sl in busy], timeout=1.0)
            now = time.time()
            for sl in busy:
                if sl["conn"] in ready:
                    try:
                        reports.append(sl["conn"].recv())
                    except (EOFError, OSError) as e:
                        reports.append({"case": sl["case"], "harness_error": "worker died: %r" % (e,), "paths": 0})
                        sl["proc"].terminate()
                        sl.update(spawn())
                    feed(sl)
                elif now - sl["t0"] > _hard_limit(sl["case"]):
                    sl["proc"].terminate()
                    reports.append({"case": sl["case"], "paths": 0, "exhausted": False, "n_inconclusive": 1, "wall_s": now - sl["t0"],
                                    "inconclusive": ["no answer within the hard wall-clock limit of %.0f s (solver did not return); worker replaced" % _hard_limit(sl["case"])]})
                    sl.update(spawn())
                    feed(sl)
            if t_end is not None and now > t_end:
                for sl in slots:
                    if sl["case"] is not None:
                        reports.append({"case": sl["case"], "skipped": "check deadline", "paths": 0})
                        sl["case"] = None
                for c in todo:
                    reports.append({"case": c, "skipped": "check deadline", "paths": 0})
                todo.clear()
                break
    finally:
        for sl in slots:
            try:
                if sl["proc"].is_alive() and sl["case"] is None:
                    sl["conn"].send(None)
            except Exception:
                pass
        for sl in slots:
            sl["proc"].join(timeout=0.5)
            if sl["proc"].is_alive():
                sl["proc"].terminate()
    return reports


def write_replay(prop: str, rec: Dict, modname: str) -> str:
    os.makedirs(REPLAY_DIR, exist_ok=True)
    h = hashlib.sha1(json.dumps(rec, sort_keys=True, default=str).encode()).hexdigest()[:10]
    path = os.path.join(REPLAY_DIR, "%s_%s.json" % (prop, h))
    with open(path, "w") as f:
        json.dump({"property": prop, "module": modname, "record": rec}, f, indent=1, default=str)
    return path


def subprocess_replay(path: str) -> Tuple[bool, str]:
    """Confirm in a fresh interpreter with no stubs installed."""
    try:
        r = subprocess.run([sys.executable, "-m", "nv.replay", path], cwd=VERIF, capture_output=True, text=True, timeout=300)
    except subprocess.TimeoutExpired:
        return True, "replay timed out (treated as reproduced only for termination properties)"
    return r.returncode == 1, (r.stdout + r.stderr)[-600:]


def finish(
    prop: str,
    modname: str,
    tier: str,
    seed: int,
    reports: List[Dict],
    t0: float,
    level: str,
    rule: str,
    bounds: Dict[str, Any],
    assumptions: List[str],
    functions: Optional[List[str]] = None,
    extra_coverage: Optional[Dict[str, Any]] = None,
    extra_violations: Optional[List[Dict]] = None,
) -> int:
    """Aggregate, confirm, match known findings, print verdict lines, write evidence."""
    known = load_known(prop)
    harness_errors = [r for r in reports if r.get("harness_error")]
    confirmed: List[Dict] = []
    unconfirmed = 0
    for r in reports:
        for c in r.get("confirmed", []):
            c = dict(c)
            c["case"] = r["case"]
            confirmed.append(c)
        unconfirmed += len(r.get("unconfirmed", []))
    for v in extra_violations or []:
        confirmed.append(v)
    # group by signature, subprocess-confirm the first of each group
    groups: Dict[str, List[Dict]] = {}
    for c in confirmed:
        groups.setdefault(c.get("signature", c.get("kind", "?")), []).append(c)
    violations: List[Tuple[Dict, str]] = []
    known_hits: Dict[str, int] = {}
    not_reproduced = 0
    n_sub = 0
    for sig, recs in sorted(groups.items()):
        entry = next((k for k in known if all(known_match(k, rec) for rec in recs[:5])), None)
        if entry is not None:
            known_hits[entry["id"]] = known_hits.get(entry["id"], 0) + len(recs)
            continue
        # some may match individually
        rest = []
        for rec in recs:
            e = next((k for k in known if known_match(k, rec)), None)
            if e is not None:
                known_hits[e["id"]] = known_hits.get(e["id"], 0) + 1
            else:
                rest.append(rec)
        if not rest:
            continue
        rec = rest[0]
        path = write_replay(prop, rec, modname)
        if rec.get("preconfirmed") or n_sub >= MAX_SUBPROCESS_REPLAYS:
            # (already reproduced natively in-process by the worker; the fresh-interpreter replay is capped)
            violations.append((rec, path))
            continue
        n_sub += 1
        ok, out = subprocess_replay(path)
        if ok:
            violations.append((rec, path))
        else:
            not_reproduced += 1
            rec["subprocess_replay"] = out
    for k in known:
        if k["id"] in known_hits:
            print("KNOWN-FINDING: property=%s %s (%d occurrence(s) this run)" % (prop, k["what"], known_hits[k["id"]]))
    for rec, path in violations[:MAX_VIOLATION_LINES]:
        print("VIOLATION property=%s replay=%s" % (prop, path))
        print("  op=%s kind=%s detail=%s" % (rec.get("op"), rec.get("kind"), rec.get("detail")))
        print("  values=%s" % json.dumps(rec.get("values", {})))
    if len(violations) > MAX_VIOLATION_LINES:
        print("(+%d further distinct violation signatures, replay files written)" % (len(violations) - MAX_VIOLATION_LINES))
    # ---------------------------------------------------------------- evidence
    paths = sum(r.get("paths", 0) for r in reports)
    stats: Dict[str, float] = {}
    for r in reports:
        for k, v in (r.get("stats") or {}).items():
            stats[k] = stats.get(k, 0) + v
    sigs = set()
    nontrivial = set()
    for r in reports:
        s = json.dumps(r["case"], sort_keys=True, default=str)
        sigs.add(s)
        if r.get("paths", 0) >= 2 or r.get("nontrivial"):
            nontrivial.add(s)
    inconclusive = [
        {"case": r["case"].get("id", r["case"].get("op")), "reason": (r.get("abort_reasons") or r.get("inconclusive") or r.get("skipped") or "budget")}
        for r in reports
        if (not r.get("exhausted", True)) or r.get("n_inconclusive") or r.get("skipped")
    ]
    samples = []
    for r in reports[:: max(1, len(reports) // 6)][:6]:
        samples.append({"case": r["case"], "paths": r.get("paths"), "exhausted": r.get("exhausted"), "path_log": r.get("path_log", [])[:2], "confirmed": len(r.get("confirmed", []))})
    coverage = {
        "evaluations": max(1, len(reports)),
        "distinct_nontrivial": max(len(nontrivial), 0),
        "rule": rule,
        "samples": samples or [{"note": "no cases"}],
        "states": max(1, int(paths)),
        "transitions": max(1, int(stats.get("decisions", 0))),
        "traces_validated_against_impl": int(sum(r.get("fidelity_runs", 0) for r in reports)),
        "paths_explored": int(paths),
        "cases_exhausted": sum(1 for r in reports if r.get("exhausted")),
        "cases_inconclusive": len(inconclusive),
        "inconclusive": inconclusive[:20],
        "solver": {
            "feasibility_queries": int(stats.get("feasibility_queries", 0)),
            "validity_queries": int(stats.get("validity_queries", 0)),
            "sat": int(stats.get("sat", 0)),
            "unsat": int(stats.get("unsat", 0)),
            "unknown": int(stats.get("unknown", 0)),
            "solver_s": round(float(stats.get("solver_s", 0.0)), 3),
            "model_cache_hits": int(stats.get("model_cache_hits", 0)),
        },
        "bounds": bounds,
        "functions_encoded": functions or [],
        "functions_executed_measured": sorted({f for r in reports for f in (r.get("functions_executed") or [])})[:400],
        "assumptions_used_measured": sorted({a for r in reports for a in (r.get("assumptions_used") or [])}),
        "raw_counterexamples": int(sum(r.get("raw_issues", 0) for r in reports)),
        "counterexamples_confirmed_natively": len(confirmed),
        "counterexamples_not_reproduced": int(unconfirmed + not_reproduced),
        "known_findings_hit": known_hits,
        "harness_errors": [{"case": r["case"].get("id", r["case"].get("op")), "error": r["harness_error"]} for r in harness_errors][:10],
        "native_runs_with_driver_exception": int(sum(r.get("n_native_harness_exceptions", 0) for r in reports)),
        "exhaustive": False,
    }
    if extra_coverage:
        coverage.update(extra_coverage)
    ev = {
        "property_id": prop,
        "tier": tier,
        "seed": int(seed),
        "level": level,
        "coverage": coverage,
        "assumptions": assumptions,
        "wall_s": round(time.time() - t0, 2),
        "violations": len(violations),
    }
    os.makedirs(EVIDENCE_DIR, exist_ok=True)
    with open(os.path.join(EVIDENCE_DIR, "%s.json" % prop), "w") as f:
        json.dump(ev, f, indent=1, default=str)
    print(
        "%s %s: cases=%d paths=%d queries=%d solver_s=%.1f confirmed=%d unconfirmed=%d known=%d violations=%d inconclusive=%d harness_errors=%d wall=%.1fs"
        % (
            prop,
            tier,
            len(reports),
            paths,
            coverage["solver"]["feasibility_queries"] + coverage["solver"]["validity_queries"],
            coverage["solver"]["solver_s"],
            len(confirmed),
            unconfirmed + not_reproduced,
            sum(known_hits.values()),
            len(violations),
            len(inconclusive),
            len(harness_errors),
            time.time() - t0,
        )
    )
    nhx = sum(r.get("n_native_harness_exceptions", 0) for r in reports)
    if nhx:
        first = next((r["native_harness_exceptions"][0] for r in reports if r.get("native_harness_exceptions")), "")
        print("NOTE: %d native run(s) ended in an exception of the driver/oracle itself (not a verdict; first: %s)" % (nhx, first))
    if harness_errors:
        for r in harness_errors[:3]:
            print("HARNESS-ERROR case=%s: %s\n%s" % (r["case"].get("id", r["case"].get("op")), r["harness_error"], r.get("traceback", "")), file=sys.stderr)
    if violations:
        return 1
    if harness_errors and len(harness_errors) == len(reports):
        return HARNESS_ERROR
    return 0


def std_args(argv=None):
    ap = argparse.ArgumentParser()
    ap.add_argument("--tier", default=os.environ.get("VERIF_TIER", "quick"), choices=["quick", "thorough"])
    ap.add_argument("--seed", type=int, default=int(os.environ.get("VERIF_SEED", "0") or 0))
    ap.add_argument("--workers", type=int, default=int(os.environ.get("VERIF_WORKERS", "16")))
    ap.add_argument("--only", default=None, help="regex on case id")
    ap.add_argument("--serial", action="store_true")
    return ap.parse_args(argv)


def run_cases(modname: str, cases: List[Dict], args) -> List[Dict]:
    if args.only:
        cases = [c for c in cases if re.search(args.only, c.get("id", ""))]
    if args.serial:
        _worker_init()
        return [_run_one((modname, c)) for c in cases]
    return run_pool(modname, cases, workers=args.workers)


# --------------------------------------------------------------------------------------
# conveniences for check modules
# --------------------------------------------------------------------------------------


def collect_atoms(specs) -> List[str]:
    from . import structures as S

    out: List[str] = []
    for s in specs:
        if not s:
            continue
        for a in S.spec_atoms(s):
            if a not in out:
                out.append(a)
    return out


def simple_run_case(case: Dict, body, specs, int_atoms: bool = False) -> Dict:
    lim = case.get("limits", {})
    return explore_case(
        case,
        body,
        collect_atoms(specs),
        max_paths=lim.get("max_paths", 2000),
        time_budget=lim.get("time", 60.0),
        int_atoms=int_atoms,
        options=case.get("options"),
    )


def simple_main(prop, modname, gen_cases, rule, bounds, functions, assumptions=None, argv=None, level="model_checking", extra=None) -> int:
    from . import stubs

    args = std_args(argv)
    t0 = time.time()
    cases = gen_cases(args.tier, args.seed)
    reports = run_cases(modname, cases, args)
    return finish(
        prop, modname, args.tier, args.seed, reports, t0, level=level, rule=rule, bounds=bounds,
        assumptions=stubs.stub_list() + list(assumptions or []), functions=functions, extra_coverage=extra,
    )


def limits(tier: str, quick=(2000, 45.0), thorough=(20000, 300.0)) -> Dict:
    q = tier == "quick"
    return {"max_paths": quick[0] if q else thorough[0], "time": quick[1] if q else thorough[1]}
