#!/bin/sh
# usage: run_all.sh [quick|thorough] [ids...] — run every claimed check, print one summary line each (evidence rewritten)
cd "$(dirname "$0")/.."
TIER=${1:-quick}; shift
IDS="${@:-$(python3 -c "import json;print(' '.join(c['property_id'] for c in json.load(open('MANIFEST.json'))['checks']))")}"
for id in $IDS; do
  s=$(date +%s); out=$(./check $id $TIER 2>&1); rc=$?; e=$(date +%s)
  echo "rc=$rc t=$((e-s))s $(echo "$out" | grep "^$id $TIER:" | tail -1)"
  mkdir -p evidence_$TIER; cp evidence/$id.json evidence_$TIER/$id.json 2>/dev/null
  echo "$out" | grep "^VIOLATION\|^KNOWN-FINDING\|^HARNESS-ERROR\|^NOTE" | head -5
done
