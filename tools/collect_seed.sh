#!/bin/sh
# usage: collect_seed.sh <ID> [srcdir]   — copy a sub-agent's deliverables to /verif/seeded/<ID>/ and verify them in a fresh scratch worktree
set -e
ID="$1"; SRC="${2:-/tmp/wt/$ID}"; DST="/verif/seeded/${3:-$ID}"
mkdir -p "$DST"
cp "$SRC/_seed/patch.diff" "$SRC/_seed/demo.py" "$SRC/_seed/meta.json" "$DST/"
W=/tmp/wt/verify_$$
/verif/tools/mkwt.sh "$W" >/dev/null
mkdir -p "$W/_seed"; cp "$DST/demo.py" "$W/_seed/"
cd "$W"
set +e
/venv/bin/python _seed/demo.py >/tmp/seed_base_$$.out 2>&1; B=$?
git apply "$DST/patch.diff" || { echo "PATCH DOES NOT APPLY"; cd /; git -C /repo worktree remove --force "$W"; exit 2; }
/venv/bin/python _seed/demo.py >/tmp/seed_mut_$$.out 2>&1; M=$?
T=$(/venv/bin/python -m pytest -q -p no:cacheprovider 2>&1 | tail -1)
F=$(/venv/bin/python -m pytest -q -p no:cacheprovider 2>&1 | grep '^FAILED' | sed 's/ - .*//' | sort | md5sum | cut -c1-8)
cd /
git -C /repo worktree remove --force "$W"; git -C /repo worktree prune
rm -f /tmp/seed_base_$$.out /tmp/seed_mut_$$.out
echo "$ID: demo_on_original_exit=$B demo_on_mutant_exit=$M tests='$T' failset=$F"
python3 - "$DST/meta.json" "$B" "$M" "$T" "$F" <<'PY'
import json,sys
p,b,m,t,f=sys.argv[1:6]
try: d=json.load(open(p))
except Exception: d={}
d["verified_by_main"]={"demo_exit_on_original":int(b),"demo_exit_on_mutant":int(m),"pytest_summary_with_patch":t,"failing_set_md5":f,
 "ran":"fresh scratch worktree of /repo HEAD + prebuilt kernels; demo.py before and after `git apply patch.diff`; full pinned pytest command with patch"}
json.dump(d,open(p,"w"),indent=1)
PY
