#!/bin/sh
# usage: mkwt.sh <dir>  — scratch git worktree of /repo HEAD (outside /repo and /verif) with the prebuilt kernels copied in
set -e
D="$1"
git -C /repo worktree add --detach "$D" HEAD >/dev/null 2>&1
cp /repo/numpoly/cfunctions/*.so "$D/numpoly/cfunctions/"
echo "$D"
