#!/usr/bin/env python3
"""Regenerate seeded/README.md from seeded/*/meta.json and seeded/results.tsv.

usage: mkseedreadme.py [log ...]   -- logs are outputs of tools/run_seeds.sh / run_seeds_wt.sh; their lines
("<seed> <property> rc=<n> violations=<k> :: <first violation>") update seeded/results.tsv first."""
import glob
import json
import os
import re
import sys

ROOT = os.path.join(os.path.dirname(os.path.dirname(os.path.abspath(__file__))), "seeded")
RES = os.path.join(ROOT, "results.tsv")

NOTES = {
    "C13": "neutralised by fix 1d3fe16 (`ndpoly.values` honours strides); reported by C13 on the pre-fix tree",
    "R4C06": "neutralised by fix 9dba7ee (positions given to `derivative` are resolved through the caller's names); caught by C06 before that fix",
    "R8C09": "neutralised by fix 3180863 (keys are exactly the stored fields for every allocation): the tight allocation the change pickles is harmless now; the defect it exposed is reported by C03 (allocation routes) on the pre-fix tree",
    "R8C15": "neutralised by fix e868ba7 (tonumpy of a zero polynomial without a stored constant term returns zeros): the conversion the change relies on no longer fails; caught by C15 (disguised-number arguments) before that fix",
    "R6C06": "neutralised by fix 9dba7ee (a negative position is resolved to a name first); caught by C06 before that fix",
}


def main():
    res = {}
    if os.path.exists(RES):
        for line in open(RES):
            p = line.rstrip("\n").split("\t")
            if len(p) >= 4:
                res[p[0]] = p[1:4]
    for log in sys.argv[1:]:
        for line in open(log):
            m = re.match(r"(\S+) (C\d\d) rc=(\d+) violations=(\d+) :: ?(.*)", line.rstrip("\n"))
            if m:
                first = re.sub(r"\s+", " ", m.group(5)).strip().replace("|", "/")
                res[m.group(1)] = [m.group(3), m.group(4), first[:150]]
    with open(RES, "w") as f:
        for k in sorted(res):
            f.write("\t".join([k] + res[k]) + "\n")
    rows = []
    for d in sorted(glob.glob(os.path.join(ROOT, "*", "meta.json"))):
        sid = os.path.basename(os.path.dirname(d))
        meta = json.load(open(d))
        prop = str(meta.get("property", sid))[:3]
        r = res.get(sid)
        if sid in NOTES:
            caught = NOTES[sid]
        elif not r:
            caught = "(not run)"
        elif r[0] == "1":
            caught = "%s quick: %s distinct violation(s); first: %s" % (prop, r[1], r[2])
        else:
            caught = "NOT caught (rc=%s)" % r[0]
        clip = lambda s, n: re.sub(r"\s+", " ", str(s)).replace("|", "/")[:n]
        rows.append("| %s | %s | %s | %s | %s |" % (sid, prop, clip(meta.get("summary", ""), 220), clip(meta.get("needs", ""), 220), caught))
    head = (
        "# Seeded mutants\n\n"
        "Each directory holds `patch.diff` (apply with `git -C /repo apply`), `demo.py` (exit 0 on the original, 1 with the patch), `meta.json` "
        "(property, summary, what it needs, and `verified_by_main`: what was re-run here in a fresh scratch worktree). "
        "`tools/run_seeds.sh [ids]` applies each patch to /repo, runs the property's quick check and reverts; `tools/run_seeds_wt.sh [ids]` does the same "
        "in a scratch worktree (check pointed at it through `NV_REPO`) without touching /repo. The last column is the outcome of the latest such run "
        "(`seeded/results.tsv`); DESIGN.md section 11 says which strengthening each miss led to. `patch.orig.diff` = the sub-agent's patch before it was "
        "re-based by hand onto later `fix:` commits.\n\n"
        "| seed | property | change | needs | latest run of the property's quick check |\n|---|---|---|---|---|\n"
    )
    with open(os.path.join(ROOT, "README.md"), "w") as f:
        f.write(head + "\n".join(rows) + "\n")
    missed = [r.split("|")[1].strip() for r in rows if "NOT caught" in r or "(not run)" in r]
    print("seeds: %d, not caught / not run: %s" % (len(rows), missed))


if __name__ == "__main__":
    main()
