#!/bin/sh
# usage: run_seeds.sh [ids...]  — apply each seeded patch to /repo, run the matching check (quick), undo; print a result table
cd /verif
IDS="${@:-$(ls -d seeded/*/ | xargs -n1 basename)}"
for d in $IDS; do
  prop=$(python3 -c "import json;print(json.load(open('/verif/seeded/$d/meta.json')).get('property','$d')[:3])")
  if ! git -C /repo apply --check /verif/seeded/$d/patch.diff 2>/dev/null; then echo "$d $prop PATCH-CONFLICT"; continue; fi
  git -C /repo apply /verif/seeded/$d/patch.diff
  out=$(./check $prop quick 2>&1); rc=$?
  git -C /repo checkout -- . 
  nv=$(echo "$out" | grep -c "^VIOLATION")
  first=$(echo "$out" | grep -A1 "^VIOLATION" | grep "op=" | head -1 | cut -c1-160)
  echo "$d $prop rc=$rc violations=$nv :: $first"
done
