#!/bin/sh
# usage: run_seeds_wt.sh [ids...] — like run_seeds.sh but WITHOUT touching /repo: each patch is applied in its own scratch
# worktree (removed afterwards) and the check analyses that checkout through NV_REPO.  Several can run in parallel.
cd /verif
IDS="${@:-$(ls -d seeded/*/ | xargs -n1 basename)}"
for d in $IDS; do
  prop=$(python3 -c "import json;print(json.load(open('/verif/seeded/$d/meta.json')).get('property','$d')[:3])")
  W=/tmp/wt/seedrun_$d_$$
  /verif/tools/mkwt.sh $W >/dev/null 2>&1 || { echo "$d $prop WORKTREE-FAILED"; continue; }
  if ! git -C $W apply /verif/seeded/$d/patch.diff 2>/dev/null; then echo "$d $prop PATCH-CONFLICT"; git -C /repo worktree remove --force $W; continue; fi
  out=$(NV_REPO=$W NV_EVIDENCE_DIR=$W/_evidence ./check $prop quick 2>&1); rc=$?
  git -C /repo worktree remove --force $W
  nv=$(echo "$out" | grep -c "^VIOLATION")
  first=$(echo "$out" | grep -A1 "^VIOLATION" | grep "op=" | head -1 | cut -c1-160)
  echo "$d $prop rc=$rc violations=$nv :: $first"
done
