#!/usr/bin/env python3
"""usage: .venv/bin/python tools/show_unconfirmed.py C11 [quick]  -- run the cases in-process, print symbolic issues that did not replay natively"""
import importlib, sys, json
sys.path.insert(0, "/verif")
from nv import harness as H
prop = sys.argv[1]; tier = sys.argv[2] if len(sys.argv) > 2 else "quick"
mod = importlib.import_module("nv.checks." + prop.lower())
H._worker_init()
for c in mod.gen_cases(tier, 0):
    try:
        r = mod.run_case(c)
    except Exception as e:
        print("ERR", c.get("id"), e); continue
    for u in r.get("unconfirmed", []):
        print(c["id"], "|", u.get("kind"), "|", u.get("detail")[:200], "| values", u.get("values"), "| native:", [x.get("detail", "")[:100] for x in u.get("native_issues", [])][:2])
