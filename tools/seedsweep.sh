#!/bin/sh
# usage: seedsweep.sh "<ids>" <first> <last> [tier]  — run checks under several VERIF_SEEDs; print non-clean runs
for id in $1; do for s in $(seq $2 $3); do
  out=$(VERIF_SEED=$s /verif/check $id ${4:-quick} 2>&1); rc=$?
  line=$(echo "$out" | grep "^$id ${4:-quick}:" | tail -1)
  if [ $rc -ne 0 ] || echo "$out" | grep -q "^VIOLATION\|HARNESS-ERROR"; then echo "!! $id seed=$s rc=$rc $line"; echo "$out" | grep -A2 "^VIOLATION\|HARNESS-ERROR" | head -12; else echo "ok $id seed=$s $line" | cut -c1-200; fi
done; done
