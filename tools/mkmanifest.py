#!/usr/bin/env python3
"""Regenerate /verif/MANIFEST.json from the table below (kept valid at all times)."""
import json
import os
import subprocess

E1_NOTE = (
    "Trusted: numpy's object-dtype loops, z3, the harness-side environment stubs listed in the evidence "
    "(kernel specifications for object dtype, any/all merging, adversarial unstable argsort, Havoc-filled fresh buffers). "
    "Every counterexample is replayed on native dtypes with the compiled kernels before it is reported. "
    "Outside: float rounding, int64 overflow, complex coefficients, result dtype under the object carrier."
)
E1_TECH = "bounded symbolic execution of the real numpoly Python code over numpy object arrays; z3 decides every value-dependent branch and the final equality with an exact polynomial model"

TABLE = {
    "C01": ("model_checking", "E1 SymObj",
            "Bounded symbolic execution of the real arithmetic code (+ - * ** unary -, numpoly.add/subtract/multiply/square) over real numpy: operand structure "
            "(shape, names, exponent rows, zero pattern, partner kind, expression tree) is enumerated, every coefficient is a z3 Real; on every feasible path the result is "
            "proved equal, coefficient by coefficient, to an exact sparse-polynomial model under the path condition. Covers all coefficient values (incl. cancellation and zero "
            "columns) for the enumerated structures; C03 invariants and C17 snapshots ride on every path.", E1_NOTE, E1_TECH),
    "C02": ("model_checking", "E1 SymObj",
            "Symbolic execution of ndpoly.__call__/numpoly.call with symbolic coefficients AND symbolic argument values; positional/keyword/None mixes, array arguments that "
            "broadcast, polynomial-valued arguments (swaps), staged evaluation and the TypeError cases are enumerated; values compared with model substitution.",
            E1_NOTE + " The sub-claim 'the value does not depend on the numeric carrier type' (python int vs numpy scalar widths, NEP-50) is NOT decided: a symbolic value cannot be a python int.", E1_TECH),
    "C03": ("model_checking", "E1 SymObj",
            "Symbolic execution of the constructors/cleaners: results of operations are regenerated through six routes (attributes, raw view + names, todict, ...) and must be model-equal with "
            "equal shape/names; attribute triples with zero-able columns, unused names, unsorted/duplicate rows are pushed through polynomial_from_attributes under all four retain-flag "
            "settings and the kept terms/names must be exactly those the contract states, decided under the path condition. Structural invariants are asserted on every result of the other drivers.",
            E1_NOTE, E1_TECH),
    "C04": ("model_checking", "E1 SymObj",
            "Symbolic execution of the four align_* functions on tuples of 1-4 operands (polynomials, numbers, arrays): outputs model-equal to inputs (broadcast), common shape / ordered name "
            "union / exponent rows and keys, idempotence, arguments unmodified.", E1_NOTE, E1_TECH),
    "C05": ("model_checking", "E1 SymObj",
            "Symbolic execution of poly_divmod and the / % divmod operators (incl. reflected) with rational symbolic coefficients of dividend and divisor: on every path the identity "
            "dividend == q*divisor + r, the constant-divisor, exact-multiple (symbolic cofactor) and univariate-degree clauses are proved over Q; termination is decided with an unwinding "
            "assertion on the loop (harness-side observation of get_division_candidate) whose failure is replayed natively with a 400-iteration / 20 s guard.",
            E1_NOTE + " Assumption A-tiny: symbolic values are 0 or >= 1e-20 in magnitude (so the 1e-30 cut-off compares like 0).", E1_TECH + "; unwinding assertion for termination"),
    "C06": ("model_checking", "E1 SymObj",
            "Symbolic execution of derivative/gradient/hessian with symbolic coefficients under all 16 retain_*/sort_* option settings and all variable designations (name, index, "
            "indeterminate, several variables); compared with the model's formal derivative; shapes (D,)+shape and (D,D)+shape.", E1_NOTE, E1_TECH),
    "C07": ("model_checking", "E1 SymObj",
            "Symbolic execution of the six comparison operators, numpy.less/greater_equal, maximum and minimum on pairs and triples of polynomials with symbolic coefficients over small monomial "
            "sets with many equal-degree terms, under the 4 sort settings: trichotomy, complements, antisymmetry, transitivity and agreement with an independent implementation of the documented "
            "order are asserted on every path. numpy.argsort without kind='stable' is an adversarial stub (any tie order), so platform-dependent tie-breaking is found as a counterexample.",
            E1_NOTE, E1_TECH + "; nondeterministic-environment stub for unstable sorts"),
    "C08": ("model_checking", "E1 SymObj",
            "Negative half: the real ndpoly.__array_ufunc__/__array_function__ are symbolically executed with a symbolic method name, an abstract callable and abstract registries whose membership "
            "is an uninterpreted predicate: on every path the call is forwarded exactly under the documented condition or raises FeatureNotSupported, for any registry contents. Positive half: the "
            "C09/C10 catalogues (about 55 registered functions), operators, comparisons, logical and unary ufuncs and python-number partners (incl. the neutral elements, floor division with "
            "symbolic real coefficients) are executed under every spelling (numpoly.f, numpy.f, operator, method, ufunc.reduce/accumulate) on the same symbolic operands in one path and must agree "
            "in type, shape, names and value.",
            E1_NOTE + " numpy's routing of calls to the override protocol is trusted. Registry entries that only run on native floats or are not value-level are listed as not encodable in the evidence.",
            E1_TECH + "; abstract (uninterpreted-predicate) execution of the dispatch methods"),
    "C09": ("model_checking", "E1 SymObj",
            "Symbolic execution of 36 shape/index functions on arrays whose every coefficient is a distinct atom (an element is recognisable wherever it lands, for all values); oracle = numpy "
            "applied to an object array of model polynomials; axes/permutations/sections/k/index grammar enumerated (bounded-exhaustive in the thorough tier).", E1_NOTE, E1_TECH),
    "C10": ("model_checking", "E1 SymObj",
            "Symbolic execution of sum/cumsum/mean/prod/diff/ediff1d/inner/outer/matmul/det (function, method and numpy.add.reduce/accumulate spellings) with symbolic coefficients; all axes, "
            "axis tuples, keepdims, n, prepend/append; matrices 1x1..3x3 (4x4 thorough) and stacks; oracle = numpy's own fold over an object array of model polynomials, Leibniz formula for det.",
            E1_NOTE, E1_TECH),
    "C11": ("model_checking", "E1 SymObj",
            "Symbolic execution on constant polynomial arrays whose values are integer atoms (repeated atoms and literals make ties reachable): sum prod cumsum mean diff ediff1d, amax amin argmax "
            "argmin and the max/min methods for every axis / axis pair / keepdims, the six comparisons, maximum/minimum, any all count_nonzero nonzero logical_and/or, floor_divide remainder "
            "true_divide (floor(x/y) as an integer atom), and refusal (FeatureNotSupported) of non-constant divisors by the numeric division functions; oracle = the numpy function itself on the "
            "object array of the same symbolic values.",
            E1_NOTE + " PARTIAL: rounding functions (around ceil floor rint round), isclose/allclose, float rounding of true division, exact result dtypes (only bool / integer kind is checked) and divmod "
            "(no object loop in numpy; native runs only) are not decided by this technique.", E1_TECH),
    "C12": ("model_checking", "E2 Kernels",
            "(A) the raw-copy kernels' dispatch table is read from cvalues.pyx; every constructor / cast / arithmetic / indexing entry point is executed per dtype configuration (14 dtypes, ordered "
            "pairs) with recording wrappers on the kernel entry points, and for each recorded kernel call (source dtype T, field dtype D) z3 decides over all coefficient bit patterns and all initial "
            "heap contents whether the field can differ from numpy's cast (unwritten field, wrong store width, raw bits instead of a cast); the same executions run with every fresh buffer poisoned "
            "(0xA5) and are compared with numpy's own casts and promoted arithmetic. (B) the E1 catalogue runs with Havoc-filled fresh buffers: a result that still contains, or a branch that "
            "depends on, a Havoc atom is a read of memory never written, for every input value; cancelling, empty and all-terms-dropped results are included.",
            "Trusted: numpy's casts and ufunc arithmetic on plain arrays (the reference), z3. No Cython: the kernels are analysed from the .pyx text; a source/binary mismatch would show as a native "
            "problem without a failing obligation and is reported as a Python-level dtype violation.",
            "trace extraction of kernel calls + z3 byte-level obligations per call; Havoc-atom symbolic execution for uninitialised reads"),
    "C13": ("model_checking", "E1 SymObj",
            "Symbolic execution of __reduce__/polynomial_from_attributes through pickle protocols 0-5, copy.copy/deepcopy/.copy(), and of numpoly.savetxt / numpy.savetxt + numpoly.loadtxt with "
            "symbolic coefficients (values travel through the text file as tokens), for 0-d, size-1, n-d arrays, strided views, single-term polynomials, retained zero columns, "
            "delimiter/header/comments settings, paths and file objects; shape, names, exponents and coefficients must come back (proved equal under the path condition).",
            E1_NOTE + " S5/S9: token formatter for str(Sym); structured<->unstructured conversion by field copies for object dtype. Number formatting/parsing precision is outside.", E1_TECH),
    "C15": ("model_checking", "E1 SymObj",
            "The operation catalogue of the E1 drivers (construct, + - * **, call, align, derivative/gradient/hessian, indexing and shape functions, reductions, pickle/copy, lead_*, "
            "division under default retain options, comparisons under the non-sort options, str/repr under the non-display options) is symbolically executed under a strength-2 covering array "
            "of the 8 boolean options (all 256 settings in the thorough tier) plus display sign variants; each result is proved equal to the same option-independent exact model and no "
            "operation may raise. Differences the retain options are documented to make (unused names / all-zero terms) are not verdicts.", E1_NOTE, E1_TECH),
    "C16": ("model_checking", "E1 SymObj",
            "Symbolic execution of array_repr/array_str/__str__/__repr__ with symbolic integer-like coefficients (so 0, 1, -1, negative leading terms are solver-chosen cases) under the 8 display_* "
            "boolean settings x alternative exponent/multiply signs; an independent recursive-descent reader evaluates the produced text over the exact model and must obtain the polynomial; "
            "printed term order must be the selected monomial order.",
            E1_NOTE + " S5: str(Sym) = sign + token. to_sympy (0-d, default display options) is executed symbolically with tokens that evaluate to sympy symbols; the round trip "
            "polynomial(to_sympy(p)) only in native runs. Float/complex/bool number formatting and suppress_small are outside.", E1_TECH),
    "C14": ("model_checking", "E3 CrossHair",
            "CrossHair (z3) executes numpoly/option.py symbolically, unmodified: op codes, payloads and the prior option state of a call history of depth 3 (quick) / 3-5 (thorough) over 7 "
            "operation kinds are symbolic; after every step get_options() must equal a stack model and get_options(defaults=True) the shipped defaults. Only 'Confirmed over all paths' counts; "
            "each harness has a reachability twin that must be refuted; counterexamples are replayed in a plain interpreter.",
            "Trusted: CrossHair's models of dict/str/contextmanager. Two option keys stand for all (guarded by an AST check that option.py names no specific key). Unknown option names: a fully "
            "symbolic str (len<=4) is usually 'Not confirmed' within the budget and is then reported inconclusive; the claim for unknown names then rests on the concrete near-miss names.",
            "CrossHair symbolic execution (z3) of option.py over bounded call histories"),
    "C17": ("model_checking", "E1 SymObj",
            "Every E1 driver snapshots each argument before the call (shape, names, keys, dtype and the identity of every stored element, so any store is seen) and compares afterwards on every "
            "path, returned or raised; a store counts only if the solver finds values for which the stored value differs from the old one. This check re-runs the whole catalogue for that verdict "
            "and adds aliasing-prone groups: already aligned operands through every binary/unary function, raising calls, out=/copyto sources, str/repr with small-number suppression.",
            E1_NOTE, E1_TECH),
    "C18": ("model_checking", "E2 Kernels",
            "(A) the real glexsort body is executed once over a symbolic key matrix (bit-vector entries 0..2, up to 3x5 quick / 3x6, 4x5 thorough) with numpy.lexsort/argsort replaced by their "
            "documented relations (stable only where the code asks): one validity query per (shape, graded, reverse) proves the output is a permutation that sorts the columns; an unstable "
            "argsort yields a concrete key matrix + legal tie order, replayed natively under a tie-reversing numpy. (B) cross_truncate is symbolically executed on integer-symbolic index rows "
            "(sqrt atoms for q=0.5/2) and its mask must equal the exact L_q predicate, so the 1e-12*D nudge can never admit an index. (C) for each enumerated glexindex/bindex configuration the "
            "real function runs concretely and z3 decides for a symbolic exponent tuple x that x in result <=> x between the bounds under the exact norm; order/duplicates/monomial are concrete side checks.",
            "Trusted: numpy's documented contracts for lexsort (stable) and argsort; z3. Outside: norm 0.8 (z3 unknown), key matrices beyond the stated sizes, float rounding inside the norm beyond the nudge claim. "
            "Part C executes the enumeration concretely per configuration (start/stop/dimensions are structure); only the membership over exponent tuples is the solver's.",
            "relational symbolic execution of glexsort over bit-vectors; symbolic execution of cross_truncate; solver-decided membership of glexindex results"),
    "C19": ("model_checking", "E1 SymObj",
            "Symbolic execution of lead_exponent/lead_coefficient (all graded/reverse flags), isconstant, tonumpy, todict, decompose, set_dimensions (targets 1..5), sortable_proxy and "
            "argmax/argmin/amax/amin without axis (all sort options) with symbolic coefficients incl. zero elements, equal leading terms and negative leading coefficients; oracle = exact "
            "model leading term under an independent implementation of the monomial order; the proxy must be a permutation consistent with (leading exponent, leading coefficient).",
            E1_NOTE, E1_TECH),
    "C20": ("model_checking", "E2 Kernels",
            "K2: the guard in multiply.py that admits the byte-oriented cmultiply kernel is translated from the AST to z3 and, with the kernel's key construction read from cmultiply.pyx "
            "(sprintf '%c' -> low byte, UTF-8 decode), z3 proves over all 32-bit exponent rows (D=2, 2x2) that an admitted product only produces ASCII key bytes equal to the true key characters; "
            "otherwise it returns concrete exponents, replayed on the compiled kernel. K3: the key encode/decode expressions are located in the sources and proved to round-trip and be injective over "
            "bit-vectors (D<=3, e<2**31); the string-view axioms are validated against real numpy on boundary code points and by an exhaustive sweep of every exponent 0..55236 in every position. "
            "K4: z3's string theory decides that a header the regex accepts yields the written key list. E1 ladder: raw view, align, * and **, derivative, call, pickle with symbolic coefficients on "
            "exponents at the 128 / 256 / 0xD800 boundaries and 55000.",
            "Trusted: z3; the axioms 'UCS4 code unit = uint32', 'sprintf %c keeps the low byte', 'UTF-8 decode is the identity exactly on ASCII' (the first validated each run). No Cython in the sandbox: the "
            ".pyx text is analysed and replays run the shipped binaries. Outside: exponent sums >= 2**32, surrogate / beyond-Unicode key characters (errors are raised there).",
            "bit-vector / string-theory proof obligations extracted from the sources (guard, codec, header) + symbolic execution on an exponent ladder + exhaustive codec sweep as axiom validation"),
}


def main():
    built = {pid for pid in TABLE if os.path.exists("/verif/nv/checks/%s.py" % pid.lower())}
    checks = []
    for pid in sorted(built):
        cat, eng, text, note, tech = TABLE[pid]
        checks.append(
            {
                "property_id": pid,
                "quick_cmd": "./check %s quick" % pid,
                "thorough_cmd": "./check %s thorough" % pid,
                "evidence_file": "/verif/evidence/%s.json" % pid,
                "replay_cmd_template": "./check --replay {path}",
                "engine": eng,
                "level_claimed": {"category": cat, "text": text, "design_ref": "DESIGN.md §6 " + pid},
                "level_note": note,
                "technique": tech,
            }
        )
    all_ids = ["C%02d" % i for i in range(1, 21)]
    na_reasons = json.load(open("/verif/tools/not_applicable.json")) if os.path.exists("/verif/tools/not_applicable.json") else {}
    na = [{"property_id": i, "reason": na_reasons.get(i, "check under construction in this round (not yet claimed)")} for i in all_ids if i not in built]
    engines = {}
    for c in checks:
        engines.setdefault(c["engine"], []).append(c["property_id"])
    m = {
        "version": 1,
        "setup_cmd": "./setup.sh",
        "hooks": {
            "guard": "NUMPOLY_VERIF",
            "enable": "harness-side only: the checks rebind module attributes of the imported /repo modules (kernel entry points, numpy global, ndpoly.__new__); no source hooks are needed, NUMPOLY_VERIF=1 is exported by ./check for completeness",
            "baseline_off_cmd": "cd /repo && /venv/bin/python -m pytest -ra -q -p no:cacheprovider --timeout=900 --continue-on-collection-errors",
            "source_commits": [],
            "add_only": True,
        },
        "engines": [
            {"name": "E1 SymObj", "path": "nv/engine.py, nv/stubs.py, nv/model.py, nv/harness.py", "serves_properties": engines.get("E1 SymObj", []),
             "kind_free_text": "forking symbolic execution of the real numpoly Python code over numpy object arrays of Sym values; z3 decides branches and postconditions; native replay of every counterexample"},
            {"name": "E2 Kernels", "path": "nv/kernels.py", "serves_properties": engines.get("E2 Kernels", []),
             "kind_free_text": "Cython kernel sources translated to a C memory model over z3 bit-vectors; key codec and header regex over bit-vectors/strings"},
            {"name": "E3 CrossHair", "path": "nv/ch_option_tmpl.py", "serves_properties": engines.get("E3 CrossHair", []),
             "kind_free_text": "CrossHair symbolic execution of option.py"},
        ],
        "checks": checks,
        "notes": "Approach, bounds, stubs, findings and seeded-mutant results: DESIGN.md. Genuine defects repaired in /repo are listed as 'fixed:' in known_findings.json.",
        "not_applicable": na,
    }
    json.dump(m, open("/verif/MANIFEST.json", "w"), indent=1)
    print("claimed:", sorted(built))


if __name__ == "__main__":
    main()
